#!/bin/sh
# Idempotent, offline bootstrap of the overlay interpreter used by every check.
# /verif/.venv = venv of /venv's python, seeing /venv's site-packages (repo deps)
# through a .pth file, plus z3-solver installed from the offline wheelhouse.
# /repo is NOT put on the path here: checks insert the tree under test themselves
# (VERIF_REPO, default /repo) so that a scratch copy can be analysed as well.
set -eu
cd "$(dirname "$0")"
VENV=/verif/.venv
LOCK=/verif/.venv.lock
exec 9>"$LOCK"
flock 9
if [ -x "$VENV/bin/python" ] && "$VENV/bin/python" -c "import z3, numpy, pandas, gymnasium" >/dev/null 2>&1; then
    exit 0
fi
rm -rf "$VENV"
/venv/bin/python -m venv "$VENV"
SP=$("$VENV/bin/python" -c "import sysconfig; print(sysconfig.get_paths()['purelib'])")
echo "/venv/lib/python3.12/site-packages" > "$SP/verif_overlay.pth"
PIP_NO_INDEX=1 "$VENV/bin/python" -m pip install --quiet --no-index \
    --find-links /opt/veriftools/wheels z3-solver
"$VENV/bin/python" -c "import z3, numpy, pandas, gymnasium; print('overlay ok: z3', z3.get_version_string())"
