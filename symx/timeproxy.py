"""Proxies for datetime / timedelta / date over z3 Ints (microseconds since 2000-01-01).

Microsecond integers are exactly the value domain of ``datetime``: a model is replayed
without rounding.  ``.date()`` is integer division by a constant, ``total_seconds()`` a
division of the integer difference by 10**6 (a z3 Real).
"""
from __future__ import annotations

from datetime import date, datetime, timedelta

import numpy as np
import pandas as pd
import z3

from .core import (SymBool, SymReal, Unsupported, ReplayIncomplete, ctx, s_not, _EMPTY, _str_to_frac,
                   _val_to_str)

EPOCH = datetime(2000, 1, 1)
US = 1_000_000
DAY_US = 86400 * US
LO_DEFAULT = datetime(2000, 1, 1)
HI_DEFAULT = datetime(2100, 1, 1)


def dt_to_us(d) -> int:
    if isinstance(d, pd.Timestamp):
        d = d.to_pydatetime()
    if isinstance(d, datetime):
        if d.tzinfo is not None:
            raise Unsupported("tz-aware datetime")
        delta = d - EPOCH
    elif isinstance(d, date):
        delta = datetime(d.year, d.month, d.day) - EPOCH
    else:
        raise TypeError(d)
    return (delta.days * 86400 + delta.seconds) * US + delta.microseconds


def td_to_us(t) -> int:
    if isinstance(t, pd.Timedelta):
        t = t.to_pytimedelta()
    return (t.days * 86400 + t.seconds) * US + t.microseconds


def us_to_dt(us: int) -> datetime:
    return EPOCH + timedelta(microseconds=int(us))


def _is_dt(o):
    return isinstance(o, (datetime, pd.Timestamp))


def _is_td(o):
    return isinstance(o, (timedelta, pd.Timedelta))


class SymSeconds(SymReal):
    """A number of seconds that is an integer count of microseconds (timedelta.total_seconds(),
    a latency).  Comparisons between two of them, or with a concrete number, are decided on
    the integer microsecond counts, which keeps the whole timeline in linear *integer*
    arithmetic (z3 5.1 times out on the mixed Int/Real form of the same problems).  Any other
    arithmetic falls back to the real-valued term ToReal(us)/10**6."""
    __slots__ = ("us",)

    def __init__(self, us, vs=_EMPTY):
        SymReal.__init__(self, z3.ToReal(us) / US, vs, False)
        self.us = us

    def _cmp(self, o, op):
        ous = None
        ovs = _EMPTY
        if isinstance(o, SymSeconds):
            ous, ovs = o.us, o.vs
        elif type(o).__name__ == "SymInt":          # a whole number of seconds
            ous, ovs = o.e * US, o.vs
        elif isinstance(o, (int, float, np.integer, np.floating)) and not isinstance(o, bool):
            f = float(o) * US
            if f == f and abs(f) < 1e18:
                if f == int(f):
                    ous = z3.IntVal(int(f))
                else:
                    # k <= x  <=>  k <= floor(x) ;  k < x <=> k <= floor(x) ; k >= x <=> k >= ceil(x) ...
                    import math as _m
                    lo, hi = _m.floor(f), _m.ceil(f)
                    a = self.us
                    e = {"lt": a <= lo, "le": a <= lo, "gt": a >= hi, "ge": a >= hi, "eq": z3.BoolVal(False)}[op]
                    return SymBool(e, self.vs, False)
        if ous is None:
            return SymReal._cmp(self, o, op)
        a, b = self.us, ous
        e = {"lt": a < b, "le": a <= b, "gt": a > b, "ge": a >= b, "eq": a == b}[op]
        return SymBool(e, self.vs | ovs, False)


class SymDelta:
    __slots__ = ("e", "vs")

    def __init__(self, e, vs=_EMPTY):
        self.e = e
        self.vs = vs

    @staticmethod
    def _lift(o):
        if isinstance(o, SymDelta):
            return o.e, o.vs
        if _is_td(o):
            return z3.IntVal(td_to_us(o)), _EMPTY
        return None

    # timedelta's normalised fields (days, 0 <= seconds < 86400, 0 <= microseconds < 10**6)
    @property
    def days(self):
        from .intproxy import SymInt
        return SymInt(self.e / DAY_US, self.vs)

    @property
    def seconds(self):
        from .intproxy import SymInt
        return SymInt((self.e % DAY_US) / US, self.vs)

    @property
    def microseconds(self):
        from .intproxy import SymInt
        return SymInt(self.e % US, self.vs)

    def total_seconds(self):
        if self.e.is_real():
            return SymReal(self.e / US, self.vs, False)
        return SymSeconds(self.e, self.vs)

    def _cmp(self, o, op):
        l = SymDelta._lift(o)
        if l is None:
            return NotImplemented
        oe, ovs = l
        e = {"lt": lambda: self.e < oe, "le": lambda: self.e <= oe, "gt": lambda: self.e > oe,
             "ge": lambda: self.e >= oe, "eq": lambda: self.e == oe}[op]()
        return SymBool(e, self.vs | ovs, False)

    def __lt__(self, o):
        return self._cmp(o, "lt")

    def __le__(self, o):
        return self._cmp(o, "le")

    def __gt__(self, o):
        return self._cmp(o, "gt")

    def __ge__(self, o):
        return self._cmp(o, "ge")

    def __eq__(self, o):
        r = self._cmp(o, "eq")
        return False if r is NotImplemented else r

    def __ne__(self, o):
        r = self._cmp(o, "eq")
        return True if r is NotImplemented else s_not(r)

    def __hash__(self):
        return 13

    def __bool__(self):
        return bool(self != timedelta(0))

    def __neg__(self):
        return SymDelta(-self.e, self.vs)

    def __add__(self, o):
        l = SymDelta._lift(o)
        if l is not None:
            return SymDelta(self.e + l[0], self.vs | l[1])
        if isinstance(o, SymTime) or _is_dt(o):
            return SymTime._lift(o).__add__(self)
        return NotImplemented

    __radd__ = __add__

    def __sub__(self, o):
        l = SymDelta._lift(o)
        if l is None:
            return NotImplemented
        return SymDelta(self.e - l[0], self.vs | l[1])

    def __rsub__(self, o):
        l = SymDelta._lift(o)
        if l is not None:
            return SymDelta(l[0] - self.e, self.vs | l[1])
        if _is_dt(o):
            return SymTime(z3.IntVal(dt_to_us(o)) - self.e, self.vs)
        return NotImplemented

    def __mul__(self, k):
        if isinstance(k, (int, np.integer)):
            return SymDelta(self.e * int(k), self.vs)
        return NotImplemented

    __rmul__ = __mul__

    def __abs__(self):
        return self if bool(self >= timedelta(0)) else -self

    def __truediv__(self, o):
        # timedelta / timedelta -> float ; timedelta / number is not modelled
        l = SymDelta._lift(o)
        if l is None:
            return NotImplemented
        num = SymSeconds(self.e, self.vs) if not self.e.is_real() else SymReal(self.e / US, self.vs, False)
        if isinstance(o, SymDelta):
            den = o.total_seconds()
        else:
            den = td_to_us(o) / US
        return num / den

    def __floordiv__(self, o):
        if _is_td(o) and td_to_us(o) > 0:
            from .intproxy import SymInt
            return SymInt(self.e / td_to_us(o), self.vs)
        return NotImplemented

    def _sym_plain(self, c):
        v = c._eval(self.e)
        return "timedelta(us=%s)" % v

    def __repr__(self):
        return "SymDelta(#%d)" % self.e.get_id()


class SymDay:
    """Result of SymTime.date(): integer days since the epoch."""
    __slots__ = ("e", "vs")

    def __init__(self, e, vs=_EMPTY):
        self.e = e
        self.vs = vs

    @staticmethod
    def _lift(o):
        if isinstance(o, SymDay):
            return o.e, o.vs
        if isinstance(o, date) and not isinstance(o, datetime):
            return z3.IntVal((o - EPOCH.date()).days), _EMPTY
        return None

    def _cmp(self, o, op):
        l = SymDay._lift(o)
        if l is None:
            return NotImplemented
        oe, ovs = l
        e = {"lt": lambda: self.e < oe, "le": lambda: self.e <= oe, "gt": lambda: self.e > oe,
             "ge": lambda: self.e >= oe, "eq": lambda: self.e == oe}[op]()
        return SymBool(e, self.vs | ovs, False)

    def __lt__(self, o):
        return self._cmp(o, "lt")

    def __le__(self, o):
        return self._cmp(o, "le")

    def __gt__(self, o):
        return self._cmp(o, "gt")

    def __ge__(self, o):
        return self._cmp(o, "ge")

    def __eq__(self, o):
        r = self._cmp(o, "eq")
        return False if r is NotImplemented else r

    def __ne__(self, o):
        r = self._cmp(o, "eq")
        return True if r is NotImplemented else s_not(r)

    def __hash__(self):
        return 17

    def _sym_plain(self, c):
        v = c._eval(self.e)
        return str(EPOCH.date() + timedelta(days=int(v.as_long())))

    def __repr__(self):
        return "SymDay(#%d)" % self.e.get_id()


class SymTime:
    """A naive datetime whose value is a z3 Int (microseconds since 2000-01-01)."""
    __slots__ = ("e", "vs", "label")
    tzinfo = None

    def __init__(self, e, vs=_EMPTY, label=None):
        self.e = e
        self.vs = vs
        self.label = label

    @staticmethod
    def _lift(o):
        if isinstance(o, SymTime):
            return o
        if _is_dt(o):
            return SymTime(z3.IntVal(dt_to_us(o)), _EMPTY)
        return None

    def _cmp(self, o, op):
        l = SymTime._lift(o)
        if l is None:
            return NotImplemented
        oe = l.e
        e = {"lt": lambda: self.e < oe, "le": lambda: self.e <= oe, "gt": lambda: self.e > oe,
             "ge": lambda: self.e >= oe, "eq": lambda: self.e == oe}[op]()
        return SymBool(e, self.vs | l.vs, False)

    def __lt__(self, o):
        return self._cmp(o, "lt")

    def __le__(self, o):
        return self._cmp(o, "le")

    def __gt__(self, o):
        return self._cmp(o, "gt")

    def __ge__(self, o):
        return self._cmp(o, "ge")

    def __eq__(self, o):
        r = self._cmp(o, "eq")
        return False if r is NotImplemented else r

    def __ne__(self, o):
        r = self._cmp(o, "eq")
        return True if r is NotImplemented else s_not(r)

    def __hash__(self):
        # constant: dict / set lookups fall back on __eq__, i.e. on the solver
        return 19

    def __bool__(self):
        return True

    def __sub__(self, o):
        l = SymTime._lift(o)
        if l is not None:
            return SymDelta(self.e - l.e, self.vs | l.vs)
        d = SymDelta._lift(o)
        if d is not None:
            return SymTime(self.e - d[0], self.vs | d[1])
        return NotImplemented

    def __rsub__(self, o):
        l = SymTime._lift(o)
        if l is not None:
            return SymDelta(l.e - self.e, self.vs | l.vs)
        return NotImplemented

    def __add__(self, o):
        d = SymDelta._lift(o)
        if d is not None:
            return SymTime(self.e + d[0], self.vs | d[1])
        return NotImplemented

    __radd__ = __add__

    def date(self):
        return SymDay(self.e / DAY_US, self.vs)

    def to_pydatetime(self):
        return self

    def replace(self, **kw):
        if kw == {"tzinfo": None}:
            return self
        raise Unsupported("SymTime.replace")

    @property
    def year(self):
        raise Unsupported("SymTime.year / .month / .day (no calendar inverse on symbolic instants)")

    month = day = year

    @property
    def hour(self):
        from .intproxy import SymInt
        return SymInt((self.e % DAY_US) / (3600 * US), self.vs)

    @property
    def minute(self):
        from .intproxy import SymInt
        return SymInt((self.e % (3600 * US)) / (60 * US), self.vs)

    @property
    def second(self):
        from .intproxy import SymInt
        return SymInt((self.e % (60 * US)) / US, self.vs)

    @property
    def microsecond(self):
        from .intproxy import SymInt
        return SymInt(self.e % US, self.vs)

    def weekday(self):
        from .intproxy import SymInt          # 2000-01-01 was a Saturday (5)
        return SymInt(((self.e / DAY_US) + 5) % 7, self.vs)

    def isoweekday(self):
        return self.weekday() + 1

    def timestamp(self):
        # naive datetimes are taken as UTC (the sandbox's local zone)
        return SymSeconds(self.e + 946684800 * US, self.vs)

    def time(self):
        raise Unsupported("SymTime.time()")

    def isoformat(self, *a, **k):
        return repr(self)

    def strftime(self, fmt):
        raise Unsupported("SymTime.strftime")

    def _sym_plain(self, c):
        v = c._eval(self.e)
        try:
            return us_to_dt(v.as_long()).isoformat(sep=" ")
        except Exception:
            return str(v)

    def __repr__(self):
        return "SymTime(%s)" % (self.label or "#%d" % self.e.get_id(),)

    __str__ = __repr__

    def __format__(self, spec):
        return repr(self)


def sym_time(c, name, lo=LO_DEFAULT, hi=HI_DEFAULT):
    """Named datetime input with lo <= t < hi.  Concrete mode: a real datetime."""
    if c.mode == "conc":
        if name not in c.values:
            raise ReplayIncomplete(name)
        return us_to_dt(int(_str_to_frac(str(c.values[name]))))
    v = c._declare(name, "time")
    t = SymTime(v, frozenset([name]), label=name)
    if lo is not None:
        c.assume(t >= lo, "time-bound")
    if hi is not None:
        c.assume(t < hi, "time-bound")
    return t


def sym_time_real(c, name, lo=LO_DEFAULT, hi=HI_DEFAULT):
    """Like sym_time but over a z3 Real (microseconds as a real number): for harnesses whose
    formulas are polynomial in elapsed time (interest), which keeps their slices in QF_NRA.
    ``.date()`` is not available on these.  Concrete mode rounds to the microsecond."""
    if c.mode == "conc":
        if name not in c.values:
            raise ReplayIncomplete(name)
        return us_to_dt(int(round(float(_str_to_frac(str(c.values[name]))))))
    v = c._declare(name, "real")
    t = SymTime(v, frozenset([name]), label=name)
    if lo is not None:
        c.assume(SymBool(v >= dt_to_us(lo), t.vs), "time-bound")
    if hi is not None:
        c.assume(SymBool(v < dt_to_us(hi), t.vs), "time-bound")
    return t


def sym_latency(c, name, hi_seconds=86400 * 400):
    """A latency in seconds: an integer number of microseconds >= 0 (w.l.o.g.: every quantity
    it is compared with is itself a whole number of microseconds)."""
    if c.mode == "conc":
        if name not in c.values:
            raise ReplayIncomplete(name)
        return int(_str_to_frac(str(c.values[name]))) / US
    v = c._declare(name, "time")
    x = SymSeconds(v, frozenset([name]))
    c.assume(SymBool(z3.And(v >= 0, v <= hi_seconds * US), x.vs), "latency-bound")
    return x


def sym_seconds(c, name, lo_us=None, hi_us=None):
    """Named timedelta input (integer microseconds)."""
    if c.mode == "conc":
        if name not in c.values:
            raise ReplayIncomplete(name)
        return timedelta(microseconds=int(_str_to_frac(str(c.values[name]))))
    v = c._declare(name, "time")
    d = SymDelta(v, frozenset([name]))
    if lo_us is not None:
        c.assume(SymBool(v >= lo_us, d.vs), "delta-bound")
    if hi_us is not None:
        c.assume(SymBool(v <= hi_us, d.vs), "delta-bound")
    return d


def const_time(d):
    """A concrete datetime wrapped as a proxy (so that it hashes like one)."""
    return SymTime(z3.IntVal(dt_to_us(d)), _EMPTY, label=str(d))


# ------------------------------------------------------------------ module-level stand-ins


class _TimedeltaMeta(type):
    def __instancecheck__(cls, obj):
        return isinstance(obj, (timedelta, SymDelta))

    def __getattr__(cls, name):
        return getattr(timedelta, name)


class TimedeltaShim(metaclass=_TimedeltaMeta):
    """``timedelta`` inside modules under test: builds a SymDelta when an argument is a proxy
    (e.g. ``timedelta(seconds=latency)``), a real timedelta otherwise."""

    def __new__(cls, days=0, seconds=0, microseconds=0, milliseconds=0, minutes=0, hours=0, weeks=0):
        parts = [(days, 86400 * US), (seconds, US), (microseconds, 1), (milliseconds, 1000), (minutes, 60 * US),
                 (hours, 3600 * US), (weeks, 7 * 86400 * US)]
        if not any(isinstance(v, (SymReal,)) or type(v).__name__ == "SymInt" for v, _ in parts):
            return timedelta(days=days, seconds=seconds, microseconds=microseconds, milliseconds=milliseconds,
                             minutes=minutes, hours=hours, weeks=weeks)
        e = z3.IntVal(0)
        vs = _EMPTY
        for v, unit in parts:
            if isinstance(v, SymSeconds):
                if unit != US:
                    raise Unsupported("timedelta(<unit other than seconds>=SymSeconds)")
                e = e + v.us
                vs = vs | v.vs
            elif type(v).__name__ == "SymInt":
                e = e + v.e * unit
                vs = vs | v.vs
            elif isinstance(v, SymReal):
                raise Unsupported("timedelta of a real-valued proxy")
            elif v:
                us = v * unit
                if us != int(us):
                    raise Unsupported("sub-microsecond timedelta")
                e = e + int(us)
        return SymDelta(e, vs)


class MathShim:
    """``math`` inside modules under test: the functions a refactor is likely to use, on proxies."""

    def __getattr__(self, name):
        import math as _m
        return getattr(_m, name)

    @staticmethod
    def isnan(x):
        import math as _m
        return False if isinstance(x, SymReal) else _m.isnan(x)

    @staticmethod
    def isfinite(x):
        import math as _m
        return True if isinstance(x, SymReal) else _m.isfinite(x)

    @staticmethod
    def isinf(x):
        import math as _m
        return False if isinstance(x, SymReal) else _m.isinf(x)

    @staticmethod
    def log(x, *a):
        import math as _m
        if isinstance(x, SymReal) and not a:
            return ctx().log(x)
        return _m.log(x, *a)

    @staticmethod
    def sqrt(x):
        import math as _m
        return ctx().power(x, 0.5) if isinstance(x, SymReal) else _m.sqrt(x)

    @staticmethod
    def pow(x, y):
        import math as _m
        return ctx().power(x, y) if isinstance(x, SymReal) or isinstance(y, SymReal) else _m.pow(x, y)

    @staticmethod
    def fabs(x):
        import math as _m
        return abs(x) if isinstance(x, SymReal) else _m.fabs(x)

    @staticmethod
    def copysign(x, y):
        import math as _m
        if isinstance(x, SymReal) or isinstance(y, SymReal):
            ax = abs(x)
            return ax if bool(y >= 0) else -ax
        return _m.copysign(x, y)

    @staticmethod
    def floor(x):
        import math as _m
        return x.__floor__() if isinstance(x, SymReal) else _m.floor(x)

    @staticmethod
    def ceil(x):
        import math as _m
        return x.__ceil__() if isinstance(x, SymReal) else _m.ceil(x)

    @staticmethod
    def trunc(x):
        import math as _m
        return x.__trunc__() if isinstance(x, SymReal) else _m.trunc(x)


def install_module_shims():
    """Shadow ``timedelta`` and ``math`` (only where a module under test already binds these
    names) for the duration of a symbolic path; undone by stubs.uninstall_all()."""
    import sys as _sys
    import math as _m
    from . import stubs
    for name, module in list(_sys.modules.items()):
        if module is None or not (name == "tradingenv" or name.startswith("tradingenv.")):
            continue
        if module.__dict__.get("timedelta") is timedelta:
            stubs.install(module, "timedelta", TimedeltaShim)
        if module.__dict__.get("math") is _m:
            stubs.install(module, "math", MathShim())
