"""Depth-first exploration of all paths of a harness, spread over worker processes.

A task is (config, decision-prefix, model-at-the-fork).  A worker explores depth-first
from that prefix for a bounded number of paths / seconds and hands back what is left of
its stack, which the master redistributes.  Each finished symbolic path is immediately
re-run concretely (plain floats / datetimes built from the path's model, no proxies, no
stubs) and the recorded outputs and obligation verdicts are compared: this is the
per-path validation of the encoding against the implementation.
"""
from __future__ import annotations

import importlib
import math
import os
import sys
import time
import traceback
from concurrent.futures import ProcessPoolExecutor, wait, FIRST_COMPLETED

from . import core

REPO = os.environ.get("VERIF_REPO", "/repo")


def _load(modname):
    if REPO not in sys.path:
        sys.path.insert(0, REPO)
    return importlib.import_module(modname)


def _values_close(a, b, tol=1e-9, scale=1.0):
    if isinstance(a, (int, float)) and isinstance(b, (int, float)) \
            and not isinstance(a, bool) and not isinstance(b, bool):
        if math.isnan(a) and math.isnan(b):
            return True
        return abs(a - b) <= tol * max(scale, abs(a), abs(b))
    if isinstance(a, (list, tuple)) and isinstance(b, (list, tuple)):
        return len(a) == len(b) and all(_values_close(x, y, tol, scale) for x, y in zip(a, b))
    if isinstance(a, dict) and isinstance(b, dict):
        return a.keys() == b.keys() and all(_values_close(a[k], b[k], tol, scale) for k in a)
    return a == b


def _magnitude(values, records):
    """Largest magnitude among the inputs and the recorded outputs of a path: float
    outputs computed from them carry rounding error relative to it (cancellation)."""
    m = 1.0
    for v in list(values.values()):
        try:
            m = max(m, abs(float(core._str_to_frac(v))))
        except Exception:
            pass

    def walk(x):
        nonlocal m
        if isinstance(x, (int, float)) and not isinstance(x, bool) and not math.isnan(x):
            m = max(m, abs(x))
        elif isinstance(x, (list, tuple)):
            for y in x:
                walk(y)
        elif isinstance(x, dict):
            for y in x.values():
                walk(y)
    for _, r in records:
        walk(r)
    return m


def validate_path(mod, cfg, c, values):
    """Run the harness concretely on the model of a finished symbolic path and compare.
    -> ('match' | 'tie' | 'mismatch', detail)"""
    sym_records = [(n, c.plain(v)) for n, v in c.records]
    sym_obl = [(o["name"], o["status"]) for o in c.obligations]
    cc = core.run_path(mod.harness, cfg, mode="conc", values=values)
    if cc.aborted == "infeasible":
        return "tie", "assumption fails in float arithmetic"
    if cc.aborted and cc.aborted.startswith("tie"):
        return "tie", cc.aborted
    if cc.aborted and cc.aborted.startswith("out-of-scope"):
        return "tie", "concrete run left the scope (float tie)"
    if cc.aborted and cc.aborted.startswith("unsupported"):
        return "mismatch", cc.aborted
    conc_records = [(n, core._plain(v)) for n, v in cc.records]
    conc_obl = [(o["name"], o["status"]) for o in cc.obligations]
    if [n for n, _ in sym_records] != [n for n, _ in conc_records] or \
            [n for n, _ in sym_obl] != [n for n, _ in conc_obl]:
        return "tie", "different branch structure (float tie)"
    scale = _magnitude(values, sym_records + [("scale", [float(x) for x in cc.scale])])
    # paths that applied the uninterpreted pow / log: the model's interpretation of the
    # function is fictitious, so recorded values are not comparable; verdicts still are
    comparable = not (c.pows or c.logs)
    # a recorded list of different length (e.g. an extra 1e-10-sized trade) means the float
    # run sits on the other side of a branch boundary: void comparison, not a disagreement
    for (n, a), (_, b) in zip(sym_records, conc_records):
        if isinstance(a, (list, tuple)) and isinstance(b, (list, tuple)) and len(a) != len(b):
            return "tie", "record %s differs in length (float tie)" % n
    for (n, a), (_, b) in zip(sym_records, conc_records) if comparable else ():
        if not _values_close(a, b, 1e-9, scale):
            return "mismatch", "record %s: symbolic %r vs concrete %r" % (n, a, b)
    for (n, a), (_, b) in zip(sym_obl, conc_obl):
        if a == "ok" and b == "violated":
            return "mismatch", "obligation %s proved symbolically but fails concretely" % n
    return "match", ""


def run_task(task):
    """Worker entry point."""
    modname, cfg, prefix, model, max_paths, max_s, trace_first, validate = task
    try:
        mod = _load(modname)
        t0 = time.time()
        stack = [(prefix, model)]
        out = []
        first = True
        while stack and len(out) < max_paths and (time.time() - t0) < max_s:
            p, m = stack.pop()
            tp = time.time()
            c = core.run_path(mod.harness, cfg, prefix=p, prefix_model=m,
                              trace_functions=True, repo_root=REPO,
                              timeout_ms=getattr(mod, "QUERY_TIMEOUT_MS", core.QUERY_TIMEOUT_MS))
            first = False
            stack.extend(c.pending)
            summ = {
                "cfg": cfg["id"],
                "decisions": "".join("1" if t else "0" for t, _ in c.decisions),
                "forks": sum(1 for _, f in c.decisions if f),
                "aborted": c.aborted,
                "obligations": c.obligations,
                "stats": c.stats.as_dict(),
                "undecided": c.undecided,
                "notes": c.notes[:5],
                "noise_ok": c.noise_ok,
                "functions": sorted(c.functions),
                "n_records": len(c.records),
                "validation": None,
            }
            if c.aborted is None or c.aborted.startswith("exception") or c.aborted.startswith("out-of-scope"):
                values = None
                try:
                    c._ensure_model()
                    values = c._export_model_lossy()
                except BaseException:
                    values = None
                summ["model"] = values
                if validate and values is not None and c.aborted is None:
                    try:
                        summ["validation"] = validate_path(mod, cfg, c, values)
                    except Exception as ex:   # concrete run crashed where symbolic did not
                        summ["validation"] = ("mismatch", "concrete run raised %r" % (ex,))
                    if len(out) < 2:
                        summ["sample_records"] = [(n, c.plain(v)) for n, v in c.records][:12]
                        summ["sample_pc"] = [str(x.e)[:160] for x in c.pc[:8]]
            summ["wall_s"] = time.time() - tp
            out.append(summ)
        return {"ok": True, "paths": out, "left": [(cfg, p, m) for p, m in stack]}
    except BaseException as ex:
        return {"ok": False, "error": "%r\n%s" % (ex, traceback.format_exc()), "cfg": cfg.get("id")}


def explore(modname, cfgs, workers=16, max_paths=40, max_s=4.0, deadline_s=None, validate=True,
            progress=None):
    """Explore every path of every config.  -> dict with 'paths', 'errors', 'complete'."""
    t0 = time.time()
    queue = [(cfg, [], None) for cfg in cfgs]
    seen_first = set()
    paths, errors = [], []
    complete = True
    with ProcessPoolExecutor(max_workers=workers) as ex:
        running = set()

        def submit():
            while queue and len(running) < workers * 2:
                cfg, p, m = queue.pop()
                trace = cfg["id"] not in seen_first
                seen_first.add(cfg["id"])
                running.add(ex.submit(run_task, (modname, cfg, p, m, max_paths, max_s, trace, validate)))

        submit()
        while running:
            done, _ = wait(running, return_when=FIRST_COMPLETED, timeout=5.0)
            for f in done:
                running.discard(f)
                try:
                    r = f.result()
                except BaseException as e:
                    errors.append("worker died: %r" % (e,))
                    continue
                if not r["ok"]:
                    errors.append(r["error"])
                    continue
                paths.extend(r["paths"])
                queue.extend(r["left"])
            if deadline_s is not None and time.time() - t0 > deadline_s:
                complete = False
                queue.clear()
                for f in running:
                    f.cancel()
                break
            submit()
            if progress:
                progress(len(paths), len(queue) + len(running))
    return {"paths": paths, "errors": errors, "complete": complete and not queue,
            "wall_s": time.time() - t0}
