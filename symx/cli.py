"""./check <ID> [--tier quick|thorough] [--replay FILE]

Exit codes: 0 held within the bounds (known findings, if any, printed);
            1 VIOLATION (replayed against the real code first);
            2 inconclusive (undecided obligation / path, or exploration not completed);
            3 harness error (vacuity, anchors not reached, encoding/replay disagreement).
"""
from __future__ import annotations

import argparse
import hashlib
import importlib
import json
import os
import sys
import time
from collections import Counter, defaultdict

HERE = os.path.dirname(os.path.dirname(os.path.abspath(__file__)))
REPO = os.environ.get("VERIF_REPO", "/repo")
sys.path.insert(0, HERE)
sys.path.insert(0, REPO)

from symx import core, explore  # noqa: E402

REGISTRY = {
    "C01": "harness.c01", "C02": "harness.c02", "C03": "harness.c03", "C04": "harness.c04",
    "C05": "harness.c05", "C06": "harness.c06", "C07": "harness.c07", "C08": "harness.c08",
    "C09": "harness.c09", "C10": "harness.c10", "C11": "harness.c11", "C12": "harness.c12",
    "C13": "harness.c13", "C14": "harness.c14", "C15": "harness.c15", "C17": "harness.c17",
    "C19": "harness.c19",
}

KNOWN = os.path.join(HERE, "known_findings.jsonl")


def load_known(prop):
    out = []
    if os.path.exists(KNOWN):
        for line in open(KNOWN):
            line = line.strip()
            if not line or line.startswith("#"):
                continue
            try:
                d = json.loads(line)
            except ValueError:
                continue
            if d.get("status") == "open" and d.get("property") == prop:
                out.append(d)
    return out


def known_match(entry, cfg, ob):
    if entry.get("obligation") and entry["obligation"] != ob["name"]:
        return False
    if entry.get("obligation_prefix") and not ob["name"].startswith(entry["obligation_prefix"]):
        return False
    for k, v in (entry.get("cfg_match") or {}).items():
        if cfg.get(k) != v:
            return False
    blob = json.dumps(ob.get("info"), sort_keys=True, default=str)
    for sub in entry.get("info_contains") or []:
        if sub not in blob:
            return False
    return True


def _exc_class(ob):
    info = ob.get("info") if isinstance(ob.get("info"), dict) else {}
    return str(info.get("exception") or "").split("(")[0].strip()


def replay_model(mod, cfg, values, want_name, want_ob=None):
    """Run the real code concretely on a model.  -> (reproduced, obligations, aborted)"""
    cc = core.run_path(mod.harness, cfg, mode="conc", values=values)
    hit = [o for o in cc.obligations if o["name"] == want_name and o["status"] == "violated"]
    if want_name == "no-unexpected-exception" and want_ob is not None:
        # an unexpected exception reproduces only if the real code raises the same kind
        hit = [o for o in hit if _exc_class(o) == _exc_class(want_ob)]
    return bool(hit), cc.obligations, cc.aborted, (hit[0] if hit else None)


def do_replay(path):
    d = json.load(open(path))
    mod = importlib.import_module(d["harness"])
    ok, obs, aborted, hit = replay_model(mod, d["config"], d["model"], d["obligation"])
    print("replay of %s on %s" % (path, REPO))
    print("config:", json.dumps(d["config"]))
    print("model :", json.dumps(d["model"]))
    for o in obs:
        print("  %-60s %s %s" % (o["name"], o["status"],
                                 json.dumps(o.get("info"), default=str)[:400] if o["status"] == "violated" else ""))
    if aborted:
        print("aborted:", aborted)
    if ok:
        print("VIOLATION property=%s replay=%s" % (d["property"], path))
        return 1
    print("not reproduced on this tree")
    return 0


def main(argv=None):
    ap = argparse.ArgumentParser()
    ap.add_argument("prop")
    ap.add_argument("--tier", default=os.environ.get("VERIF_TIER", "quick"))
    ap.add_argument("--replay")
    ap.add_argument("--workers", type=int, default=int(os.environ.get("VERIF_WORKERS", "16")))
    ap.add_argument("--only", help="substring filter on config ids (development aid)")
    ap.add_argument("--no-evidence", action="store_true")
    a = ap.parse_args(argv)
    if a.replay:
        return do_replay(a.replay)
    prop = a.prop
    seed = int(os.environ.get("VERIF_SEED", "0"))
    mod = importlib.import_module(REGISTRY[prop])
    t0 = time.time()
    cfgs = mod.configs(a.tier)
    if a.only:
        cfgs = [c for c in cfgs if a.only in c["id"]]
    import random
    random.Random(seed).shuffle(cfgs)     # order of configurations only
    deadline = getattr(mod, "DEADLINE_S", {"quick": 900, "thorough": 7200})[a.tier]
    pre = getattr(mod, "precheck", None)
    pre_info = pre(a.tier) if pre else None
    res = explore.explore(REGISTRY[prop], cfgs, workers=a.workers, deadline_s=deadline,
                          max_paths=getattr(mod, "TASK_PATHS", 40), max_s=getattr(mod, "TASK_S", 4.0))
    paths = res["paths"]
    cfg_by_id = {c["id"]: c for c in cfgs}

    # ------------------------------------------------------------------ aggregate
    stats = core.Stats()
    aborted = Counter()
    validation = Counter()
    mismatches = []
    obl = Counter()
    reach = Counter()
    functions = set()
    undecided = 0
    noise_ok = 0
    viol = defaultdict(list)
    samples = []
    for p in paths:
        stats.add(p["stats"])
        undecided += p["undecided"]
        noise_ok += p.get("noise_ok", 0)
        functions.update(p["functions"])
        if p["aborted"]:
            aborted[p["aborted"].split(":")[0]] += 1
            if p["aborted"].startswith("unsupported"):
                mismatches.append("%s: %s" % (p["cfg"], p["aborted"]))
        if p["validation"]:
            validation[p["validation"][0]] += 1
            if p["validation"][0] == "mismatch":
                mismatches.append("%s [%s]: %s" % (p["cfg"], p["decisions"], p["validation"][1]))
        for o in p["obligations"]:
            if o["status"] == "reached":
                reach[o["name"]] += 1
                continue
            if o["status"] == "dup":
                continue
            if o["status"] is None:
                o["status"] = "undecided"        # prove() was interrupted before a verdict
            obl[(o["name"], o["status"])] += 1
            if o["status"] == "violated":
                info = o.get("info") if isinstance(o.get("info"), dict) else {}
                sig = str(info.get("sig") or (info.get("exception") or "")[:60].split("(")[0])
                viol[(p["cfg"], o["name"], sig)].append(o)
        if "sample_records" in p and len(samples) < 6:
            samples.append({"config": p["cfg"], "decisions": p["decisions"], "model": p.get("model"),
                            "path_condition_head": p.get("sample_pc"),
                            "outputs": p["sample_records"],
                            "obligations": [(o["name"], o["status"]) for o in p["obligations"]][:12]})

    status = 0
    msgs = []
    if res["errors"]:
        status = 3
        msgs.append("worker errors: " + "; ".join(e[:600] for e in res["errors"][:3]))
    if mismatches:
        status = 3
        msgs.append("encoding validation failed: " + " | ".join(mismatches[:5]))
    anchors = getattr(mod, "ANCHORS", [])
    missing = [x for x in anchors if not any(f.endswith(x) for f in functions)]
    if missing and not a.only:
        status = 3
        msgs.append("anchored functions never entered: %s" % missing)
    exp_reach = getattr(mod, "EXPECT_REACH", [])
    not_reached = [x for x in exp_reach if reach["reach:" + x] == 0]
    if not_reached and not a.only:
        status = 3
        msgs.append("vacuity: never reached %s" % not_reached)
    if not paths:
        status = 3
        msgs.append("no path explored")

    # ------------------------------------------------------------------ violations: replay first
    known = load_known(prop)
    reported, known_hits, unreproduced = [], [], []
    for (cid, name, sig), obs in sorted(viol.items()):
        cfg = cfg_by_id[cid]
        obs_sorted = sorted(obs, key=lambda o: (not o.get("refined", False),))
        done = False
        for o in obs_sorted[:6]:
            if o.get("model") is None:
                continue
            ok, cobs, cab, hit = replay_model(mod, cfg, o["model"], name, o)
            if ok:
                o = dict(o)
                o["concrete"] = hit.get("info")
                k = [e for e in known if known_match(e, cfg, {"name": name, "info": hit.get("info")})
                     or known_match(e, cfg, o)]
                if k:
                    known_hits.append((k[0], cid, name, o))
                else:
                    reported.append((cid, name, o, len(obs)))
                done = True
                break
        if not done:
            unreproduced.append((cid, name, obs_sorted[0]))

    os.makedirs(os.path.join(HERE, "replays"), exist_ok=True)
    seen_known = set()
    for e, cid, name, o in known_hits:
        key = e.get("id") or e.get("what")
        if key in seen_known:
            continue
        seen_known.add(key)
        print("KNOWN-FINDING: property=%s %s" % (prop, e.get("what")))
    replay_files = []
    for cid, name, o, n in reported:
        body = {"property": prop, "harness": REGISTRY[prop], "config": cfg_by_id[cid],
                "obligation": name, "model": o["model"], "info": o.get("info"),
                "concrete": o.get("concrete"), "paths_violating": n,
                "how": "./check %s --replay <this file>" % prop}
        h = hashlib.sha1(json.dumps([cid, name, json.dumps(o.get("concrete"), default=str)[:80]],
                                    sort_keys=True).encode()).hexdigest()[:10]
        f = os.path.join(HERE, "replays", "%s-%s.json" % (prop, h))
        json.dump(body, open(f, "w"), indent=1, default=str)
        replay_files.append(f)
        print("VIOLATION property=%s replay=%s" % (prop, f))
        if len(replay_files) <= 6:
            print("   obligation %s  config %s  (%d violating paths)\n   model %s\n   real code: %s" % (
                name, cid, n, json.dumps(o["model"])[:400], json.dumps(o.get("concrete"), default=str)[:400]))
        else:
            print("   obligation %s  config %s  (%d violating paths)" % (name, cid, n))
    if reported:
        # a counterexample that replayed on the real code outranks harness diagnostics
        # (which are still printed below)
        status = 1
    if unreproduced and status == 0:
        # a model found under the fictitious interpretation of pow/log may be spurious:
        # inconclusive; any other counterexample that does not replay is a harness error
        status = 2 if all(o.get("uf") for _, _, o in unreproduced) else 3
        for cid, name, o in unreproduced[:5]:
            msgs.append("counterexample did not replay on the real code: %s %s model=%s info=%s" % (
                cid, name, json.dumps(o.get("model")), json.dumps(o.get("info"), default=str)[:300]))
    n_undec = undecided + aborted["undecided"] + sum(v for (n, s), v in obl.items() if s == "undecided")
    if status == 0 and (n_undec or not res["complete"]):
        status = 2
        msgs.append("inconclusive: %d undecided, exploration complete=%s" % (n_undec, res["complete"]))
        for p in paths:
            if p.get("notes") and (p["undecided"] or (p["aborted"] or "").startswith("undecided")):
                msgs.append("  undecided on %s [%s]: %s" % (p["cfg"], p["decisions"][:40], p["notes"][:2]))

    # ------------------------------------------------------------------ evidence
    wall = time.time() - t0
    n_obl = sum(v for (n, s), v in obl.items())
    n_ok = sum(v for (n, s), v in obl.items() if s == "ok")
    ev = {
        "property_id": prop, "tier": a.tier, "seed": seed, "level": "model_checking",
        "coverage": {
            "states": len(paths),
            "transitions": stats.queries,
            "traces_validated_against_impl": validation["match"],
            "samples": samples or [{"note": "no sample"}],
            "exhaustive": bool(res["complete"]),
            "explanation": "bounded symbolic execution of the real code: states = explored paths "
                           "(each with a satisfiable path condition), transitions = SMT queries "
                           "discharged, traces_validated = paths whose model was re-run on the real "
                           "code with plain floats/datetimes and agreed on every recorded output",
            "configurations": len(cfgs),
            "obligations": n_obl,
            "discharged": n_ok,
            "obligations_by_name": {"%s [%s]" % k: v for k, v in sorted(obl.items(), key=lambda kv: (kv[0][0], str(kv[0][1])))},
            "reachability_witnesses": dict(reach),
            "solver_seconds": round(stats.solver_s, 2),
            "solver_results": {"sat": stats.sat, "unsat": stats.unsat, "unknown": stats.unknown},
            "decision_cache_hits": stats.cache_hits,
            "undecided": n_undec,
            "equalities_holding_up_to_1e-9_relative_only": noise_ok,
            "paths_aborted": dict(aborted),
            "validation": dict(validation),
            "functions_encoded": sorted(functions),
            "bounds": getattr(mod, "BOUNDS", {}).get(a.tier, getattr(mod, "BOUNDS", {})),
            "outside_the_claim": getattr(mod, "OUTSIDE", []),
            "stubs": getattr(mod, "STUBS", []),
            "known_findings_reproduced": sorted(seen_known),
            "precheck": pre_info,
            "repo": REPO,
        },
        "assumptions": getattr(mod, "ASSUMPTIONS", []),
        "wall_s": round(wall, 2),
        "violations": len(reported),
    }
    if not a.no_evidence and not a.only:
        os.makedirs(os.path.join(HERE, "evidence"), exist_ok=True)
        json.dump(ev, open(os.path.join(HERE, "evidence", "%s.json" % prop), "w"), indent=1, default=str)

    print("%s tier=%s configs=%d paths=%d queries=%d solver=%.1fs wall=%.1fs validated=%d ties=%d "
          "obligations=%d discharged=%d violated=%d undecided=%d" % (
              prop, a.tier, len(cfgs), len(paths), stats.queries, stats.solver_s, wall,
              validation["match"], validation["tie"], n_obl, n_ok,
              sum(v for (n, s), v in obl.items() if s == "violated"), n_undec))
    for m in msgs:
        print("  !", m)
    print({0: "OK", 1: "VIOLATION", 2: "INCONCLUSIVE", 3: "HARNESS-ERROR"}[status])
    return status


if __name__ == "__main__":
    sys.exit(main())
