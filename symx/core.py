"""symx.core — path-forking symbolic execution of real Python code over z3 terms.

The code under test is executed as is.  It receives proxy objects (``SymReal``,
``SymBool``, and the time proxies of ``symx.timeproxy``) wherever a user would pass
floats / datetimes.  Every operator on a proxy builds a z3 term; every truth test
(``if``, ``sorted``, ``bisect``, ``in`` ...) lands in ``Ctx.branch`` which asks z3 which
outcomes are feasible under the current path condition, takes one and schedules the
other for a later re-execution (depth-first, by forced decision prefix).

Solver discipline (see DESIGN.md §2.3):
  * a fresh solver per query (z3's incremental core degrades to ``unknown`` once
    nonlinear terms are in context);
  * constraint-independence slicing: a query is sent with only those conjuncts of the
    path condition that transitively share a variable with it; the tactic is chosen
    per slice (default solver for linear / ToInt slices, QF_NRA for polynomial ones);
  * a satisfying model of the whole path condition is carried along, so that a new
    decision normally needs one query only (the side the model does not witness);
  * implied decisions are cached per path, keyed by the (kept alive) z3 term id.

The same harness function can be run in *concrete* mode (``Ctx(mode='conc')``): the
named inputs are then ordinary floats / datetimes taken from a model and the real code
runs without any proxy or stub.  This is used for (a) per-path validation of the
encoding and (b) replay of counterexamples before anything is reported.
"""
from __future__ import annotations

import math
import os
import sys
import time as _time
from fractions import Fraction

import numpy as np
import z3

# --------------------------------------------------------------------------- errors


class PathInfeasible(BaseException):
    """An assumption is unsatisfiable under the path condition: drop the path."""


class PathUndecided(BaseException):
    """The solver could not decide feasibility of a path: the path is abandoned and
    counted; the check can then not exit 0."""


class OutOfScope(BaseException):
    """The path left the scope of the property under check (e.g. the account was ruined
    in a harness that is not about ruin).  Counted, not an error."""


class Unsupported(BaseException):
    """The code under test applied an operation to a proxy that is not modelled."""


class HarnessError(Exception):
    pass


def reraise_if_proxy(ex):
    """A TypeError/ValueError caught by a harness that is really a proxy limitation
    (its message names a proxy class) must not be taken for behaviour of the code."""
    msg = str(ex)
    if not isinstance(ex, (TypeError, AttributeError)):
        return
    if any(n in msg for n in ("SymReal", "SymBool", "SymTime", "SymDelta", "SymInt", "SymDay")):
        raise Unsupported("proxy limitation surfaced as %s: %s" % (type(ex).__name__, msg[:200]))


# --------------------------------------------------------------------------- globals

_CTX: "Ctx | None" = None


def ctx() -> "Ctx":
    if _CTX is None:
        raise HarnessError("no active symbolic context")
    return _CTX


_RV_CACHE: dict = {}


def _const_frac(x) -> Fraction:
    """Exact-ish rational for a concrete python/numpy number (see DESIGN §2.4: floats
    are modelled as reals; a float literal such as 0.1 denotes the real 1/10)."""
    if isinstance(x, Fraction):
        return x
    if isinstance(x, (bool, np.bool_)):
        return Fraction(int(x))
    if isinstance(x, (int, np.integer)):
        return Fraction(int(x))
    xf = float(x)
    if math.isnan(xf) or math.isinf(xf):
        raise Unsupported("nan/inf constant in symbolic arithmetic: %r" % (x,))
    fr = Fraction(xf)
    nice = fr.limit_denominator(10 ** 9)
    if float(nice) == xf:
        return nice
    return fr


def rv(x) -> z3.ArithRef:
    """z3 Real numeral for a concrete number."""
    fr = _const_frac(x)
    r = _RV_CACHE.get(fr)
    if r is None:
        r = z3.RealVal(str(fr))
        _RV_CACHE[fr] = r
    return r


def is_concrete_number(x) -> bool:
    return isinstance(x, (int, float, np.integer, np.floating, Fraction, bool, np.bool_))


def _is_nan(x) -> bool:
    return isinstance(x, (float, np.floating)) and math.isnan(float(x))


_EMPTY = frozenset()

# --------------------------------------------------------------------------- SymBool


class SymBool:
    __slots__ = ("e", "vs", "nl")

    def __init__(self, e, vs=_EMPTY, nl=False):
        self.e = e
        self.vs = vs
        self.nl = nl

    def __bool__(self):
        return ctx().branch(self)

    # python-level combinators (no forking; used by harness oracles)
    def __and__(self, o):
        if isinstance(o, SymBool):
            return SymBool(z3.And(self.e, o.e), self.vs | o.vs, self.nl or o.nl)
        return self if bool(o) else False

    __rand__ = __and__

    def __or__(self, o):
        if isinstance(o, SymBool):
            return SymBool(z3.Or(self.e, o.e), self.vs | o.vs, self.nl or o.nl)
        return True if bool(o) else self

    __ror__ = __or__

    def __invert__(self):
        return SymBool(z3.Not(self.e), self.vs, self.nl)

    def __eq__(self, o):
        if isinstance(o, SymBool):
            return SymBool(self.e == o.e, self.vs | o.vs, self.nl or o.nl)
        if isinstance(o, (bool, np.bool_)):
            return self if o else ~self
        return NotImplemented

    def __ne__(self, o):
        r = self.__eq__(o)
        return r if r is NotImplemented else ~r

    def __hash__(self):
        return 7

    def __repr__(self):
        return "SymBool(#%d)" % self.e.get_id()


def s_not(b):
    return ~b if isinstance(b, SymBool) else (not b)


def s_and(*bs):
    out = True
    for b in bs:
        if isinstance(b, SymBool):
            out = b if out is True else (out & b)
        elif not b:
            return False
    return out


def s_or(*bs):
    out = False
    for b in bs:
        if isinstance(b, SymBool):
            out = b if out is False else (out | b)
        elif b:
            return True
    return out


def s_implies(a, b):
    return s_or(s_not(a), b)


def s_iff(a, b):
    if isinstance(a, SymBool) or isinstance(b, SymBool):
        if not isinstance(a, SymBool):
            return b if a else s_not(b)
        if not isinstance(b, SymBool):
            return a if b else s_not(a)
        return SymBool(a.e == b.e, a.vs | b.vs, a.nl or b.nl)
    return bool(a) == bool(b)


# --------------------------------------------------------------------------- SymReal


class SymReal:
    """A python float whose value is a z3 Real term."""

    __slots__ = ("e", "vs", "nl")
    __array_priority__ = 1000.0

    def __init__(self, e, vs=_EMPTY, nl=False):
        self.e = e
        self.vs = vs
        self.nl = nl

    # -- helpers
    @staticmethod
    def _lift(o):
        """-> (z3 term, vars, nl) or None if o is not a number-like."""
        if isinstance(o, SymReal):
            return o.e, o.vs, o.nl
        if is_concrete_number(o):
            return rv(o), _EMPTY, False
        return None

    def _bin(self, o, op, reflected=False, mul=False, div=False):
        if _is_nan(o):
            return float("nan")
        l = SymReal._lift(o)
        if l is None:
            return NotImplemented
        oe, ovs, onl = l
        a, b = (oe, self.e) if reflected else (self.e, oe)
        nl = self.nl or onl
        if mul and self.vs and ovs:
            nl = True
        if div:
            den_vs = self.vs if reflected else ovs
            if den_vs:
                nl = True
        return SymReal(op(a, b), self.vs | ovs, nl)

    # -- arithmetic
    def __add__(self, o):
        if is_concrete_number(o) and not _is_nan(o) and o == 0:
            return self
        return self._bin(o, lambda a, b: a + b)

    def __radd__(self, o):
        if is_concrete_number(o) and not _is_nan(o) and o == 0:
            return self
        return self._bin(o, lambda a, b: a + b, reflected=True)

    def __sub__(self, o):
        if is_concrete_number(o) and not _is_nan(o) and o == 0:
            return self
        return self._bin(o, lambda a, b: a - b)

    def __rsub__(self, o):
        return self._bin(o, lambda a, b: a - b, reflected=True)

    def __mul__(self, o):
        if is_concrete_number(o) and not _is_nan(o):
            if o == 0:
                return 0.0
            if o == 1:
                return self
        return self._bin(o, lambda a, b: a * b, mul=True)

    def __rmul__(self, o):
        if is_concrete_number(o) and not _is_nan(o):
            if o == 0:
                return 0.0
            if o == 1:
                return self
        return self._bin(o, lambda a, b: a * b, reflected=True, mul=True)

    def __truediv__(self, o):
        if _is_nan(o):
            return float("nan")
        if is_concrete_number(o):
            if o == 0:
                raise ZeroDivisionError("float division by zero")
            if o == 1:
                return self
            return self._bin(o, lambda a, b: a / b)
        if isinstance(o, SymReal):
            if o == 0:  # forks / is implied by the path condition
                raise ZeroDivisionError("float division by zero")
            return self._bin(o, lambda a, b: a / b, div=True)
        return NotImplemented

    def __rtruediv__(self, o):
        if _is_nan(o):
            return float("nan")
        if not is_concrete_number(o):
            return NotImplemented
        if self == 0:
            raise ZeroDivisionError("float division by zero")
        if o == 0:
            return 0.0
        return self._bin(o, lambda a, b: a / b, reflected=True, div=True)

    def __neg__(self):
        return SymReal(-self.e, self.vs, self.nl)

    def __pos__(self):
        return self

    def __abs__(self):
        # fork instead of an If-term: keeps every path polynomial
        return self if self >= 0 else -self

    def __pow__(self, o):
        return ctx().power(self, o)

    def __rpow__(self, o):
        return ctx().power(o, self)

    def __floordiv__(self, o):
        raise Unsupported("floordiv on SymReal")

    def __mod__(self, o):
        raise Unsupported("mod on SymReal")

    def __trunc__(self):
        return ctx().trunc(self)

    def __floor__(self):
        t = ctx().trunc(self)
        return t if bool(self >= t) else t - 1

    def __ceil__(self):
        t = ctx().trunc(self)
        return t if bool(self <= t) else t + 1

    def is_integer(self):
        raise Unsupported("is_integer on SymReal")

    def item(self):
        return self

    @property
    def real(self):
        return self

    def __copy__(self):
        return self

    def __deepcopy__(self, memo):
        return self

    # -- comparisons
    def _cmp(self, o, op):
        if _is_nan(o):
            return False
        if isinstance(o, (float, np.floating)) and math.isinf(float(o)):
            pos = float(o) > 0
            return {"lt": pos, "le": pos, "gt": not pos, "ge": not pos, "eq": False}[op]
        l = SymReal._lift(o)
        if l is None:
            return NotImplemented
        oe, ovs, onl = l
        a, b = self.e, oe
        if op == "lt":
            e = a < b
        elif op == "le":
            e = a <= b
        elif op == "gt":
            e = a > b
        elif op == "ge":
            e = a >= b
        else:
            e = a == b
        return SymBool(e, self.vs | ovs, self.nl or onl)

    def __lt__(self, o):
        return self._cmp(o, "lt")

    def __le__(self, o):
        return self._cmp(o, "le")

    def __gt__(self, o):
        return self._cmp(o, "gt")

    def __ge__(self, o):
        return self._cmp(o, "ge")

    def __eq__(self, o):
        r = self._cmp(o, "eq")
        if r is NotImplemented:
            return False
        return r

    def __ne__(self, o):
        if _is_nan(o):
            return True
        r = self._cmp(o, "eq")
        if r is NotImplemented:
            return True
        return s_not(r)

    def __hash__(self):
        return 11

    def __bool__(self):
        return bool(self != 0)

    def __repr__(self):
        # cheap on purpose: the repo formats values into exception messages, and z3's
        # pretty printer takes seconds on large terms
        return "SymReal(#%d)" % self.e.get_id()

    def __format__(self, spec):
        return repr(self)

    # numpy-ish scalar API used by the repo
    def clip(self, lo, hi, out=None):
        x = self
        if lo is not None and x < lo:
            return lo
        if hi is not None and x > hi:
            return hi
        return x

    def __round__(self, n=None):
        """round(x): nearest integer, ties to even — decided by forking over the result within
        the same bound as int() (larger magnitudes are assumed away)."""
        if n is not None:
            raise Unsupported("round(x, ndigits) on SymReal")
        c = ctx()
        B = c.TRUNC_BOUND
        c.assume(s_and(self > -(B + 1), self < B + 1), "round-bound")
        for k in range(-(B + 1), B + 2):
            if bool(self < k + 0.5):
                if bool(self == k - 0.5) and k % 2 == 1:
                    return k - 1            # exact tie below: even neighbour
                return k
        raise HarnessError("round: unreachable")

    def __array_ufunc__(self, ufunc, method, *inputs, **kwargs):
        if method != "__call__" or kwargs.get("out") is not None:
            return NotImplemented
        name = ufunc.__name__
        if any(isinstance(i, np.ndarray) for i in inputs):
            if all(i.ndim == 0 for i in inputs if isinstance(i, np.ndarray)):
                inputs = tuple(i.item() if isinstance(i, np.ndarray) else i for i in inputs)
                return ufunc(*inputs) if not any(isinstance(i, SymReal) for i in inputs) \
                    else self.__array_ufunc__(ufunc, method, *inputs, **kwargs)
            # elementwise loop over the broadcast inputs; result is an object array
            arrs = [i if isinstance(i, np.ndarray) else _Scalar(i) for i in inputs]
            shape = np.broadcast_shapes(*[a.shape for a in arrs if isinstance(a, np.ndarray)])
            out = np.empty(shape, dtype=object)
            views = [np.broadcast_to(a, shape) if isinstance(a, np.ndarray) else a for a in arrs]
            for idx in np.ndindex(*shape):
                args = [v[idx] if isinstance(v, np.ndarray) else v.v for v in views]
                args = [a.item() if isinstance(a, np.generic) else a for a in args]
                out[idx] = ufunc(*args)
            return out
        if name == "isnan":
            return False
        if name == "isfinite":
            return True
        if name == "isinf":
            return False
        if name == "sign":
            x = inputs[0]
            if x > 0:
                return 1.0
            if x < 0:
                return -1.0
            return 0.0
        if name == "absolute":
            return abs(inputs[0])
        if name == "negative":
            return -inputs[0]
        if name == "log":
            return ctx().log(inputs[0])
        if name == "sqrt":
            return ctx().power(inputs[0], 0.5)
        if name == "power":
            return ctx().power(inputs[0], inputs[1])
        if name == "add":
            return inputs[0] + inputs[1] if inputs[0] is self else inputs[1].__radd__(inputs[0])
        if name == "subtract":
            return inputs[0] - inputs[1] if inputs[0] is self else inputs[1].__rsub__(inputs[0])
        if name == "multiply":
            return inputs[0] * inputs[1] if inputs[0] is self else inputs[1].__rmul__(inputs[0])
        if name in ("divide", "true_divide"):
            return inputs[0] / inputs[1] if inputs[0] is self else inputs[1].__rtruediv__(inputs[0])
        if name in ("less", "less_equal", "greater", "greater_equal", "equal", "not_equal"):
            a, b = inputs
            py = {"less": "__lt__", "less_equal": "__le__", "greater": "__gt__",
                  "greater_equal": "__ge__", "equal": "__eq__", "not_equal": "__ne__"}[name]
            sw = {"__lt__": "__gt__", "__le__": "__ge__", "__gt__": "__lt__", "__ge__": "__le__",
                  "__eq__": "__eq__", "__ne__": "__ne__"}
            if isinstance(a, SymReal):
                return getattr(a, py)(b)
            return getattr(b, sw[py])(a)
        if name in ("maximum", "minimum"):
            a, b = inputs
            if name == "maximum":
                return a if a >= b else b
            return a if a <= b else b
        raise Unsupported("numpy ufunc %s on SymReal" % name)


class _Scalar:
    __slots__ = ("v",)

    def __init__(self, v):
        self.v = v


def sym_float(x):
    """Stand-in for the builtin ``float`` inside modules under test (identity on
    proxies)."""
    if isinstance(x, SymReal):
        return x
    return float(x)


def sym_int(x):
    """Stand-in for the builtin ``int``: truncation toward zero on proxies."""
    if isinstance(x, SymReal):
        c = ctx()
        return c.trunc(x)
    return int(x)


# --------------------------------------------------------------------------- context


class _Conj:
    __slots__ = ("e", "rep", "nl", "tag")

    def __init__(self, e, rep, nl, tag):
        self.e = e
        self.rep = rep
        self.nl = nl
        self.tag = tag


class Stats:
    def __init__(self):
        self.queries = 0
        self.solver_s = 0.0
        self.unknown = 0
        self.sat = 0
        self.unsat = 0
        self.cache_hits = 0
        self.model_hits = 0

    def as_dict(self):
        return dict(self.__dict__)

    def add(self, other: dict):
        for k, v in other.items():
            setattr(self, k, getattr(self, k, 0) + v)


QUERY_TIMEOUT_MS = 20000
PARANOID = bool(os.environ.get("SYMX_PARANOID"))


def _parse_smt_real(v: str):
    """'3', '3.0', '(- 3)', '(/ 1 2)', '(- (/ 1 2))' -> Fraction | None"""
    v = v.strip()
    try:
        if v.startswith("(-"):
            inner = _parse_smt_real(v[2:-1])
            return None if inner is None else -inner
        if v.startswith("(/"):
            a, b = v[2:-1].split()
            return Fraction(a.split(".")[0] if a.endswith(".0") else a) / Fraction(b.split(".")[0] if b.endswith(".0") else b)
        return Fraction(v)
    except Exception:
        return None


def _val_to_str(v) -> str:
    if z3.is_algebraic_value(v):
        return "alg:" + v.approx(30).as_string()
    if z3.is_int_value(v):
        return v.as_string()
    if z3.is_rational_value(v):
        return v.as_string()
    if z3.is_true(v):
        return "true"
    if z3.is_false(v):
        return "false"
    return str(v)


def _str_to_frac(s: str) -> Fraction:
    if s.startswith("alg:"):
        s = s[4:]
    s = s.rstrip("?")
    return Fraction(s)


class Ctx:
    """One execution (one path) of a harness."""

    def __init__(self, mode="sym", prefix=None, prefix_model=None, values=None,
                 timeout_ms=QUERY_TIMEOUT_MS, trace_functions=False):
        self.mode = mode
        self.prefix = list(prefix or [])           # [(taken, forked)]
        self.prefix_model = prefix_model            # dict name -> str  (or None)
        self.values = values or {}                  # concrete mode: name -> Fraction/str
        self.timeout_ms = timeout_ms
        self.decisions = []                         # [(taken, forked)] of this path
        self.pending = []                           # [(prefix, model-dict-or-None)]
        self.pc = []                                # [_Conj]
        self.vars = {}                              # name -> z3 const
        self.var_kind = {}                          # name -> 'real' | 'int' | 'time'
        self.var_order = []
        self._uf_parent = {}
        self._uf_members = {}
        self.cache = {}
        self.model = {} if not self.prefix else None   # name -> z3 value ; None = unknown
        self._model_ref = None
        self._model_dirty = True
        self.stats = Stats()
        self.obligations = []                       # dicts
        self.records = []                           # (name, value)
        self.notes = []
        self.pows = []                              # (base, exp, result)  SymReal/consts
        self.logs = []                              # (arg, result)
        self.fresh_n = 0
        self.undecided = 0
        self.functions = set()
        self.trace_functions = trace_functions
        self.aborted = None
        self.scale = []                             # magnitudes the outputs were computed from
        self.cex_hints = []                         # soft constraints for counterexample search
        self.noise_ok = 0                           # equalities that hold up to 1e-9 relative only

    # ----------------------------------------------------------------- variables
    def _declare(self, name, kind):
        if name in self.vars:
            raise HarnessError("duplicate variable %s" % name)
        v = z3.Int(name) if kind in ("int", "time") else z3.Real(name)
        self.vars[name] = v
        self.var_kind[name] = kind
        self.var_order.append(name)
        self._uf_parent[name] = name
        self._uf_members[name] = {name}
        if self.model is not None and name not in self.model:
            # default value; fixed up by the first assume() that constrains it
            self.model[name] = z3.IntVal(0) if kind in ("int", "time") else z3.RealVal(0)
            self._model_dirty = True
        return v

    def real(self, name, lo=None, hi=None, lo_strict=False, hi_strict=False, nonzero=False):
        """A named real input.  Bounds are assumptions and are recorded."""
        if self.mode == "conc":
            if name not in self.values:
                raise ReplayIncomplete(name)
            return float(_str_to_frac(self.values[name])) if isinstance(self.values[name], str) \
                else float(self.values[name])
        v = self._declare(name, "real")
        x = SymReal(v, frozenset([name]), False)
        if lo is not None:
            self.assume(x > lo if lo_strict else x >= lo)
        if hi is not None:
            self.assume(x < hi if hi_strict else x <= hi)
        if nonzero:
            self.assume(x != 0)
        return x

    def fresh_real(self, stem):
        self.fresh_n += 1
        name = "%s!%d" % (stem, self.fresh_n)
        v = self._declare(name, "real")
        return SymReal(v, frozenset([name]), False)

    def int_var(self, name):
        """z3 Int constant (used by the time / calendar proxies)."""
        return self._declare(name, "int")

    # ----------------------------------------------------------------- union find
    def _find(self, a):
        p = self._uf_parent
        r = a
        while p[r] != r:
            r = p[r]
        while p[a] != r:
            p[a], a = r, p[a]
        return r

    def _union_all(self, vs):
        it = iter(vs)
        try:
            first = next(it)
        except StopIteration:
            return None
        r = self._find(first)
        for v in it:
            s = self._find(v)
            if s != r:
                if len(self._uf_members[s]) > len(self._uf_members[r]):
                    r, s = s, r
                self._uf_parent[s] = r
                self._uf_members[r] |= self._uf_members.pop(s)
        return r

    def _add_conj(self, e, vs, nl, tag=""):
        if not vs:
            return
        self._union_all(vs)
        self.pc.append(_Conj(e, next(iter(vs)), nl, tag))

    def _slice(self, vs):
        roots = {self._find(v) for v in vs}
        conj = [c for c in self.pc if self._find(c.rep) in roots]
        names = set()
        for r in roots:
            names |= self._uf_members[r]
        return conj, names

    # ----------------------------------------------------------------- solving
    def _solve(self, conj, extra, names, nl, want_model=True, timeout_ms=None):
        """-> ('sat', {name: value}) | ('unsat', None) | ('unknown', None).

        Portfolio per slice.  Linear (incl. ToInt / Int) slices: z3's default solver.
        Polynomial real slices: (1) simplify > purify-arith > solve-eqs > nlsat, which
        decides in milliseconds the sign-of-a-quotient queries that cost QF_NRA's default
        strategy 14 s each; (2) SolverFor(QF_NRA); (3) the default solver.  A first round
        with a short timeout, a second with the full one."""
        nl = nl or any(c.nl for c in conj)
        kinds = {self.var_kind[n] for n in names}
        full = int(timeout_ms or self.timeout_ms)
        if not nl:
            plan = [("default", full), ("default2", full), ("presolve", 3 * full)]
        elif kinds <= {"real"}:
            short = min(2500, full)
            plan = [("pnra", short), ("cvc5", full), ("nra", short), ("default", short),
                    ("pnra", full), ("nra", full), ("default", full)]
        else:
            plan = [("default", full)]
        for tac, tmo in plan:
            if tac == "cvc5":
                r = self._cvc5(conj, extra, names, want_model, tmo)
                if r[0] != "unknown":
                    return r
                continue
            if tac == "nra":
                s = z3.SolverFor("QF_NRA")
            elif tac == "pnra":
                s = z3.Then("simplify", "purify-arith", "solve-eqs", "qfnra-nlsat").solver()
            elif tac == "presolve":
                s = z3.Then("simplify", "propagate-values", "solve-eqs", "smt").solver()
            elif tac == "default2":
                s = z3.Solver()          # second opinion: the older simplex core, other seed
                s.set("arith.solver", 2)
                s.set("random_seed", 11)
            else:
                s = z3.Solver()
            s.set("timeout", tmo)
            for c in conj:
                s.add(c.e)
            for e in extra:
                s.add(e)
            t0 = _time.time()
            try:
                r = s.check()
            except z3.Z3Exception:
                r = z3.unknown
            dt = _time.time() - t0
            self.stats.queries += 1
            self.stats.solver_s += dt
            if r == z3.sat:
                self.stats.sat += 1
                if not want_model:
                    return "sat", None
                try:
                    m = s.model()
                    out = {}
                    for n in names:
                        out[n] = m.eval(self.vars[n], model_completion=True)
                except z3.Z3Exception:
                    continue
                return "sat", out
            if r == z3.unsat:
                self.stats.unsat += 1
                return "unsat", None
        self.stats.unknown += 1
        self.notes.append("unknown: %d conjuncts, extra %s" % (len(conj), str(extra[0])[:200] if extra else ""))
        return "unknown", None

    def _cvc5(self, conj, extra, names, want_model, tmo_ms):
        """Last resort for polynomial real slices on which every z3 strategy gave up: the
        cvc5 binary (its cylindrical-algebraic-coverings procedure decides in under a second
        some unsat slices that cost z3's nlsat a minute).  A second solver, same formula."""
        import re
        import subprocess
        import tempfile
        exe = "/usr/bin/cvc5"
        if not os.path.exists(exe):
            return "unknown", None
        s = z3.Solver()
        for c in conj:
            s.add(c.e)
        for e in extra:
            s.add(e)
        body = "\n".join(l for l in s.to_smt2().splitlines() if not l.startswith("(set-info") and l.strip() != "(check-sat)")
        text = "(set-logic QF_NRA)\n(set-option :produce-models true)\n" + body + "\n(check-sat)\n(get-model)\n"
        t0 = _time.time()
        try:
            with tempfile.NamedTemporaryFile("w", suffix=".smt2", delete=True) as f:
                f.write(text)
                f.flush()
                out = subprocess.run([exe, "--tlimit=%d" % int(tmo_ms), f.name], capture_output=True,
                                     text=True, timeout=tmo_ms / 1000.0 + 10).stdout
        except Exception:
            return "unknown", None
        finally:
            self.stats.queries += 1
            self.stats.solver_s += _time.time() - t0
        head = out.strip().splitlines()[0].strip() if out.strip() else ""
        self.stats.__dict__["cvc5"] = self.stats.__dict__.get("cvc5", 0) + 1
        if head == "unsat":
            self.stats.unsat += 1
            return "unsat", None
        if head != "sat":
            return "unknown", None
        self.stats.sat += 1
        if not want_model:
            return "sat", None
        vals = {}
        for m in re.finditer(r"\(define-fun\s+(\S+)\s+\(\)\s+Real\s+(.+?)\)\s*$", out, re.M):
            name, v = m.group(1).strip("|"), m.group(2).strip()
            fr = _parse_smt_real(v)
            if fr is None:
                return "unknown", None
            vals[name] = fr
        outm = {}
        for n in names:
            if n not in vals:
                return "unknown", None
            outm[n] = z3.RealVal(str(vals[n]))
        # trust, but verify: the model must satisfy the query
        mm = z3.Model()
        for n, v in outm.items():
            mm.update_value(self.vars[n], v)
        for c in conj:
            if not z3.is_true(z3.simplify(mm.eval(c.e, model_completion=True))):
                return "unknown", None
        for e in extra:
            if not z3.is_true(z3.simplify(mm.eval(e, model_completion=True))):
                return "unknown", None
        return "sat", outm

    def _eval(self, e):
        """Evaluate a Bool/Real term under the carried model -> z3 value or None."""
        if self.model is None:
            return None
        if self._model_dirty or self._model_ref is None:
            m = z3.Model()
            for n, v in self.model.items():
                m.update_value(self.vars[n], v)
            self._model_ref = m
            self._model_dirty = False
        return self._model_ref.eval(e, model_completion=True)

    def _eval_bool(self, e):
        v = self._eval(e)
        if v is None:
            return None
        if z3.is_true(v):
            return True
        if z3.is_false(v):
            return False
        v = z3.simplify(v)
        if z3.is_true(v):
            return True
        if z3.is_false(v):
            return False
        return None

    def _update_model(self, part):
        self.model.update(part)
        self._model_dirty = True

    def _ensure_model(self):
        """Compute a model of the whole path condition (component by component)."""
        if self.model is not None:
            return
        model = {}
        seen = set()
        for n in self.var_order:
            r = self._find(n)
            if r in seen:
                continue
            seen.add(r)
            conj, names = self._slice([n])
            if not conj:
                for m in names:
                    model[m] = z3.IntVal(0) if self.var_kind[m] != "real" else z3.RealVal(0)
                continue
            res, part = self._solve(conj, [], names, False)
            if res == "unsat":
                raise PathInfeasible()
            if res == "unknown":
                self.undecided += 1
                raise PathUndecided("no model for path condition")
            model.update(part)
        self.model = model
        self._model_dirty = True

    def _export_model(self, model=None):
        model = self.model if model is None else model
        if model is None:
            return None
        out = {}
        for n, v in model.items():
            if z3.is_algebraic_value(v):
                return None            # cannot be shipped exactly: recompute on arrival
            out[n] = _val_to_str(v)
        return out

    def _import_model(self, d):
        if d is None:
            return None
        out = {}
        for n in self.var_order:
            s = d.get(n)
            k = self.var_kind[n]
            if s is None:
                out[n] = z3.IntVal(0) if k != "real" else z3.RealVal(0)
            else:
                out[n] = z3.IntVal(s) if k != "real" else z3.RealVal(s)
        return out

    def _paranoid(self, where):
        """Self-check (SYMX_PARANOID=1): the carried model satisfies the path condition."""
        if self.model is None:
            return
        for cj in self.pc:
            if self._eval_bool(cj.e) is not True:
                raise HarnessError("carried model violates the path condition after %s: %s"
                                   % (where, str(cj.e)[:200]))

    # ----------------------------------------------------------------- branching
    def branch(self, sb: SymBool) -> bool:
        r = self._branch(sb)
        if PARANOID:
            self._paranoid("branch")
        return r

    def _branch(self, sb: SymBool) -> bool:
        e = sb.e
        if z3.is_true(e):
            return True
        if z3.is_false(e):
            return False
        if not sb.vs:
            e = z3.simplify(e)
            if z3.is_true(e):
                return True
            if z3.is_false(e):
                return False
        key = e.get_id()
        hit = self.cache.get(key)
        if hit is not None:
            self.stats.cache_hits += 1
            return hit[1]
        n = len(self.decisions)
        if n < len(self.prefix):
            taken, forked = self.prefix[n]
            self.decisions.append((taken, forked))
            if forked:
                self._add_conj(e if taken else z3.Not(e), sb.vs, sb.nl, "dec")
            self.cache[key] = (e, taken)
            if n + 1 == len(self.prefix):
                self.model = self._import_model(self.prefix_model)
                self._model_dirty = True
            return taken
        self._ensure_model()
        side = self._eval_bool(e)
        conj, names = self._slice(sb.vs)
        if side is None:
            # model could not evaluate the term (should not happen): ask the solver
            r1, m1 = self._solve(conj, [e], names, sb.nl)
            if r1 == "sat":
                self._update_model(m1)
                side = True
            elif r1 == "unsat":
                side = False
                self.decisions.append((False, False))
                self.cache[key] = (e, False)
                return False
            else:
                side = True
        else:
            self.stats.model_hits += 1
        other = z3.Not(e) if side else e
        r, m = self._solve(conj, [other], names, sb.nl)
        if r == "unsat":
            self.decisions.append((side, False))
            self.cache[key] = (e, side)
            return side
        # fork: the model side is explored now, the other one later
        alt_model = None
        if r == "sat":
            merged = dict(self.model)
            merged.update(m)
            alt_model = self._export_model(merged)
        self.pending.append((self.decisions + [(not side, True)], alt_model))
        self.decisions.append((side, True))
        self._add_conj(e if side else z3.Not(e), sb.vs, sb.nl, "dec")
        self.cache[key] = (e, side)
        return side

    # ----------------------------------------------------------------- assume / prove
    def assume(self, cond, tag="assume"):
        self._assume(cond, tag)
        if PARANOID and self.mode != "conc":
            self._paranoid("assume")

    def _assume(self, cond, tag="assume"):
        if self.mode == "conc":
            if not bool(cond):
                raise PathInfeasible()
            return
        if not isinstance(cond, SymBool):
            if not cond:
                raise PathInfeasible()
            return
        e = cond.e
        if z3.is_true(e):
            return
        if z3.is_false(e):
            raise PathInfeasible()
        replaying = len(self.decisions) < len(self.prefix)
        if replaying or self.model is None:
            self._add_conj(e, cond.vs, cond.nl, tag)
            self.cache[e.get_id()] = (e, True)
            return
        ok = self._eval_bool(e)
        if ok is not True:
            conj, names = self._slice(cond.vs)
            names = names | set(cond.vs)
            r, m = self._solve(conj, [e], names, cond.nl)
            if r == "unsat":
                raise PathInfeasible()
            if r == "unknown":
                self.undecided += 1
                raise PathUndecided("assume")
            self._update_model(m)
        self._add_conj(e, cond.vs, cond.nl, tag)
        self.cache[e.get_id()] = (e, True)

    def prove(self, name, cond, info=None):
        """Obligation: under the path condition ``cond`` holds for every value."""
        ob = {"name": name, "status": None}
        self.obligations.append(ob)
        if self.mode != "conc" and len(self.decisions) < len(self.prefix):
            # still replaying the forced prefix: this obligation was decided, under the
            # very same path condition, on the path this one forked from
            ob["status"] = "dup"
            return True
        if self.mode == "conc":
            ob["status"] = "ok" if bool(cond) else "violated"
            if info is not None and ob["status"] == "violated":
                ob["info"] = _plain(info)
            return ob["status"] == "ok"
        if not isinstance(cond, SymBool):
            if cond:
                ob["status"] = "ok"
                return True
            self._ensure_model()
            ob["status"] = "violated"
            ob["model"] = self._export_model_lossy()
            if info is not None:
                ob["info"] = self.plain(info)
            return False
        e = cond.e
        if z3.is_true(e):
            ob["status"] = "ok"
            return True
        self._ensure_model()
        mv = self._eval_bool(e)
        if mv is False:
            ob["status"] = "violated"
            ob["model"] = self._export_model_lossy()
            if info is not None:
                ob["info"] = self.plain(info)
            return False
        conj, names = self._slice(cond.vs)
        r, m = self._solve(conj, [z3.Not(e)], names, cond.nl)
        if r == "unknown":
            r, m = self._solve(conj, [z3.Not(e)], names, cond.nl, timeout_ms=4 * self.timeout_ms)
        if r == "unsat":
            ob["status"] = "ok"
            return True
        if r == "sat":
            merged = dict(self.model)
            merged.update(m)
            ob["status"] = "violated"
            ob["model"] = self._export_model_lossy(merged)
            if self.pows or self.logs:
                ob["uf"] = True         # sat under a fictitious pow/log: replay arbitrates
            if info is not None:
                save, self.model = self.model, merged
                self._model_dirty = True
                try:
                    ob["info"] = self.plain(info)
                finally:
                    self.model = save
                    self._model_dirty = True
            return False
        ob["status"] = "undecided"
        self.undecided += 1
        return None

    def prove_eq(self, name, a, b, tol=1e-9, info=None, scale=()):
        """Obligation a == b: exact over the reals in symbolic mode; in concrete mode up
        to ``tol`` relative to the largest magnitude among a, b and ``scale`` (the terms
        a and b were computed from: a difference of two large NLVs carries their rounding
        error).  A symbolic counterexample is refined to one that violates the equality
        by a margin (1e-4 relative to the same scale) so that its float replay is
        meaningful; if no such model exists the raw one is kept."""
        if self.mode != "conc" and len(self.decisions) < len(self.prefix):
            self.obligations.append({"name": name, "status": "dup"})
            return True
        if self.mode == "conc" or not (isinstance(a, SymReal) or isinstance(b, SymReal)):
            ok = _close(a, b, tol, tuple(scale) + tuple(x for x in self.scale if not isinstance(x, SymReal)))
            ob = {"name": name, "status": "ok" if ok else "violated"}
            if not ok:
                ob["info"] = {"lhs": _plain(a), "rhs": _plain(b), "extra": _plain(info)}
                if self.mode != "conc":
                    self._ensure_model()
                    ob["model"] = self._export_model_lossy()
            self.obligations.append(ob)
            return ok
        ok = self.prove(name, a == b, info={"lhs": a, "rhs": b, "extra": info})
        if ok is False:
            ob = self.obligations[-1]
            sc = tuple(scale) + tuple(self.scale)
            r = self._refine_cex(ob, a, b, sc, info, 1e-4)
            if r != "sat":
                r = self._refine_cex(ob, a, b, sc, info, 1e-9)
                if r == "unsat":
                    # the two sides differ by less than 1e-9 of the magnitudes involved for
                    # every value on this path: float rounding inside concrete
                    # sub-computations of the code (rounding is outside every claim)
                    ob["status"] = "ok"
                    ob["noise"] = True
                    ob.pop("model", None)
                    self.noise_ok += 1
                    return True
        return ok

    def _refine_cex(self, ob, a, b, scale, info, rel):
        try:
            return self._refine_cex_(ob, a, b, scale, info, rel)
        except z3.Z3Exception:
            return "unknown"

    def _refine_cex_(self, ob, a, b, scale, info, rel):
        terms = [x for x in (a, b) + tuple(scale) if isinstance(x, SymReal)]
        consts = [abs(float(x)) for x in (a, b) + tuple(scale) if is_concrete_number(x)]
        S = rv(1.0 + sum(consts))
        vs = set()
        nl = False
        for t in terms:
            S = S + z3.If(t.e >= 0, t.e, -t.e)
            vs |= t.vs
            nl = nl or t.nl
        ae = a.e if isinstance(a, SymReal) else rv(a)
        be = b.e if isinstance(b, SymReal) else rv(b)
        d = ae - be
        delta = rv(rel) * S
        hints = [h for h in self.cex_hints]
        for h in hints:
            vs |= h.vs
        conj, names = self._slice(vs)
        r = "unknown"
        if hints:
            r, m = self._solve(conj, [z3.Or(d >= delta, -d >= delta)] + [h.e for h in hints], names, True,
                               timeout_ms=self.timeout_ms)
        if r != "sat":
            r, m = self._solve(conj, [z3.Or(d >= delta, -d >= delta)], names, True,
                               timeout_ms=self.timeout_ms)
        if r == "sat":
            merged = dict(self.model)
            merged.update(m)
            ob["model"] = self._export_model_lossy(merged)
            ob["refined"] = True
            save, self.model = self.model, merged
            self._model_dirty = True
            try:
                ob["info"] = self.plain({"lhs": a, "rhs": b, "extra": info})
            finally:
                self.model = save
                self._model_dirty = True
        else:
            ob["refined"] = False
        return r

    def _export_model_lossy(self, model=None):
        model = self.model if model is None else model
        return {n: _val_to_str(v) for n, v in model.items()}

    def scale_hint(self, *xs):
        """Magnitudes (cash, gross position values ...) from which the checked outputs are
        computed: float comparisons in concrete mode are relative to the largest of them
        (cancellation), and refined counterexamples violate by a margin relative to them."""
        self.scale.extend(xs)

    def cex_hint(self, cond):
        """Soft preference used only when a counterexample is being refined (e.g. 'the
        interval is at least a month long') so that its float replay is meaningful."""
        if isinstance(cond, SymBool):
            self.cex_hints.append(cond)

    def out_of_scope(self, why):
        raise OutOfScope(why)

    def reached(self, name):
        """Reachability witness: records that a path with a satisfiable path condition
        got here (the vacuity twin of DESIGN §2.5)."""
        self.obligations.append({"name": "reach:" + name, "status": "reached"})

    # ----------------------------------------------------------------- records
    def record(self, name, value):
        self.records.append((name, value))

    def plain(self, v):
        """Concrete picture of a (possibly symbolic) value under the current model."""
        if isinstance(v, SymReal):
            x = self._eval(v.e)
            try:
                return float(_str_to_frac(_val_to_str(x)))
            except Exception:
                return str(x)
        if isinstance(v, SymBool):
            return self._eval_bool(v.e)
        if hasattr(v, "_sym_plain"):
            return v._sym_plain(self)
        if isinstance(v, dict):
            return {str(k): self.plain(x) for k, x in v.items()}
        if isinstance(v, (list, tuple)):
            return [self.plain(x) for x in v]
        return _plain(v)

    # ----------------------------------------------------------------- nonlinear functions
    def power(self, base, exp):
        """base ** exp.  Small natural exponents are expanded; anything else becomes a
        fresh real constrained by instantiated exponent-law axioms (Ackermannised
        uninterpreted function; DESIGN §2.4)."""
        if self.mode == "conc":
            return base ** exp
        if is_concrete_number(exp) and float(exp) == int(exp) and 0 <= int(exp) <= 4:
            n = int(exp)
            if n == 0:
                return 1.0
            out = base
            for _ in range(n - 1):
                out = out * base
            return out
        if not isinstance(base, SymReal) and not isinstance(exp, SymReal):
            return base ** exp
        if is_concrete_number(base) and base == 1:
            return 1.0
        r = self.fresh_real("pow")
        if isinstance(base, SymReal) and bool(base <= 0):
            raise Unsupported("power with non-positive symbolic base")
        if is_concrete_number(base) and base <= 0:
            raise Unsupported("power with non-positive base")
        # axioms for this application
        self.assume(r > 0, "pow-ax")
        self.assume(s_implies(_eq(exp, 0), r == 1), "pow-ax")
        self.assume(s_implies(_eq(base, 1), r == 1), "pow-ax")
        self.assume(s_implies(s_and(_gt(base, 1), _gt(exp, 0)), r > 1), "pow-ax")
        self.assume(s_implies(s_and(_gt(base, 1), _lt(exp, 0)), r < 1), "pow-ax")
        self.assume(s_implies(s_and(_lt(base, 1), _gt(exp, 0)), r < 1), "pow-ax")
        self.assume(s_implies(s_and(_lt(base, 1), _lt(exp, 0)), r > 1), "pow-ax")
        self.assume(s_implies(_eq(exp, 1), _eq(r, base)), "pow-ax")
        for (b2, x2, r2) in self.pows:
            same_b = _eq(base, b2)
            # congruence
            self.assume(s_implies(s_and(same_b, _eq(exp, x2)), r == r2), "pow-ax")
            # monotonic in the exponent
            self.assume(s_implies(s_and(same_b, _gt(base, 1), _lt(exp, x2)), r < r2), "pow-ax")
            self.assume(s_implies(s_and(same_b, _gt(base, 1), _gt(exp, x2)), r > r2), "pow-ax")
            self.assume(s_implies(s_and(same_b, _lt(base, 1), _lt(exp, x2)), r > r2), "pow-ax")
            self.assume(s_implies(s_and(same_b, _lt(base, 1), _gt(exp, x2)), r < r2), "pow-ax")
        # product law  b^x * b^y = b^(x+y) for every triple on the path
        new = (base, exp, r)
        allp = self.pows + [new]
        for i, (b1, x1, r1) in enumerate(allp):
            for j, (b2, x2, r2) in enumerate(allp):
                if j < i:
                    continue
                for k, (b3, x3, r3) in enumerate(allp):
                    if new not in ((b1, x1, r1), (b2, x2, r2), (b3, x3, r3)):
                        continue
                    if k == i or k == j:
                        continue
                    self.assume(s_implies(s_and(_eq(b1, b2), _eq(b1, b3), _eq(_add(x1, x2), x3)),
                                          _eq(r1 * r2, r3)), "pow-ax")
        self.pows.append(new)
        return r

    def log(self, x):
        if self.mode == "conc":
            return math.log(x)
        if not isinstance(x, SymReal):
            return math.log(x)
        if bool(x <= 0):
            raise Unsupported("log of non-positive symbolic value")
        r = self.fresh_real("log")
        self.assume(s_iff(x > 1, r > 0), "log-ax")
        self.assume(s_iff(x == 1, r == 0), "log-ax")
        for (x2, r2) in self.logs:
            self.assume(s_iff(_lt(x, x2), r < r2), "log-ax")
            self.assume(s_iff(_eq(x, x2), r == r2), "log-ax")
        self.logs.append((x, r))
        return r

    TRUNC_BOUND = 3

    def trunc(self, x: SymReal):
        """int(x): truncation toward zero.  Forks over the integer result within
        [-TRUNC_BOUND, TRUNC_BOUND] and returns a python int, exactly as int() would;
        larger magnitudes are assumed away (a stated bound).  Keeps every path in real
        arithmetic (no Int/Real mixing)."""
        B = self.TRUNC_BOUND
        self.assume(s_and(x > -(B + 1), x < B + 1), "trunc-bound")
        if x >= 0:
            for k in range(0, B + 1):
                if x < k + 1:
                    return k
        else:
            for k in range(0, -(B + 1), -1):
                if x > k - 1:
                    return k
        raise HarnessError("trunc: unreachable")


class ReplayIncomplete(BaseException):
    """Concrete mode: the model has no value for an input the run asks for (the symbolic
    path ended before declaring it)."""


class FloatTie(BaseException):
    """Concrete mode only: the float run sits on a branch boundary (e.g. int() of a value
    within rounding distance of an integer); the comparison with the symbolic path is void."""


def _eq(a, b):
    if isinstance(a, SymReal):
        return a == b
    if isinstance(b, SymReal):
        return b == a
    return a == b


def _lt(a, b):
    if isinstance(a, SymReal):
        return a < b
    if isinstance(b, SymReal):
        return b > a
    return a < b


def _gt(a, b):
    return _lt(b, a)


def _add(a, b):
    return a + b


def _close(a, b, tol, scale=()):
    try:
        a = float(a)
        b = float(b)
    except TypeError:
        return a == b
    if math.isnan(a) or math.isnan(b):
        return False
    mag = max([1.0, abs(a), abs(b)] + [abs(float(x)) for x in scale])
    return abs(a - b) <= tol * mag


def _plain(v):
    if v is None or isinstance(v, (bool, int, str)):
        return v
    if isinstance(v, float):
        return v
    if isinstance(v, (np.floating, np.integer)):
        return v.item()
    if isinstance(v, Fraction):
        return float(v)
    if isinstance(v, dict):
        return {str(k): _plain(x) for k, x in v.items()}
    if isinstance(v, (list, tuple)):
        return [_plain(x) for x in v]
    return str(v)


# --------------------------------------------------------------------------- running one path


def run_path(harness, config, prefix=None, prefix_model=None, mode="sym", values=None,
             trace_functions=False, timeout_ms=QUERY_TIMEOUT_MS, repo_root=None):
    """Execute ``harness(ctx, config)`` once.  Returns the finished Ctx."""
    global _CTX
    c = Ctx(mode=mode, prefix=prefix, prefix_model=prefix_model, values=values,
            timeout_ms=timeout_ms, trace_functions=trace_functions)
    prev = _CTX
    _CTX = c
    prof = None
    if trace_functions and repo_root:
        # functions of the tree under test entered on this path (sys.monitoring: each code
        # location reports once and is then disabled, so the overhead is negligible)
        root = repo_root.rstrip("/") + "/tradingenv"
        mon = sys.monitoring
        tool = mon.PROFILER_ID
        try:
            mon.use_tool_id(tool, "symx")
        except ValueError:
            pass

        def on_start(code, offset):
            fn = code.co_filename
            if fn.startswith(root):
                c.functions.add("%s:%s" % (fn[len(root) + 1:], code.co_qualname))
            return mon.DISABLE
        mon.register_callback(tool, mon.events.PY_START, on_start)
        mon.set_events(tool, mon.events.PY_START)
        mon.restart_events()
        prof = True
    if mode == "sym":
        from .timeproxy import install_module_shims
        install_module_shims()
    try:
        harness(c, config)
    except PathInfeasible:
        c.aborted = "infeasible"
    except PathUndecided as ex:
        c.aborted = "undecided:%s" % (ex,)
    except Unsupported as ex:
        c.aborted = "unsupported:%s" % (ex,)
    except OutOfScope as ex:
        c.aborted = "out-of-scope:%s" % (ex,)
    except FloatTie as ex:
        c.aborted = "tie:%s" % (ex,)
    except ReplayIncomplete as ex:
        c.aborted = "incomplete:%s" % (ex,)
    except Exception as ex:  # an exception the harness did not expect: an obligation
        import traceback
        tb = traceback.format_exc(limit=-6)
        c.aborted = "exception:%r" % (ex,)
        ob = {"name": "no-unexpected-exception", "status": "violated",
              "info": {"exception": repr(ex), "traceback": tb}}
        if mode == "sym":
            try:
                c._ensure_model()
                ob["model"] = c._export_model_lossy()
            except BaseException:
                ob["status"] = "undecided"
        c.obligations.append(ob)
    finally:
        from . import stubs as _stubs
        _stubs.uninstall_all()
        if prof is not None:
            sys.monitoring.set_events(sys.monitoring.PROFILER_ID, 0)
            sys.monitoring.register_callback(sys.monitoring.PROFILER_ID, sys.monitoring.events.PY_START, None)
        _CTX = prev
    return c
