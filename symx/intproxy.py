"""SymInt and SymProgression: just enough symbolic integers to run numpy-style slice
arithmetic (``np.arange(n)[: stop : step] * k + c``) with a symbolic length.

``SymProgression`` stands for the array first, first+step, ... (``count`` elements): the
result of slicing an ``np.arange``.  Python's slice semantics (negative stop counted from
the end, clamping) are decided by forking on the signs involved."""
from __future__ import annotations

import numpy as np
import z3

from .core import SymBool, Unsupported, ReplayIncomplete, ctx, s_not, _EMPTY, _str_to_frac


class SymInt:
    __slots__ = ("e", "vs")

    def __init__(self, e, vs=_EMPTY):
        self.e = e
        self.vs = vs

    @staticmethod
    def _lift(o):
        if isinstance(o, SymInt):
            return o.e, o.vs
        if isinstance(o, (bool, np.bool_)):
            return z3.IntVal(int(o)), _EMPTY
        if isinstance(o, (int, np.integer)):
            return z3.IntVal(int(o)), _EMPTY
        return None

    def _bin(self, o, f, reflected=False):
        l = SymInt._lift(o)
        if l is None:
            return NotImplemented
        a, b = (l[0], self.e) if reflected else (self.e, l[0])
        return SymInt(f(a, b), self.vs | l[1])

    def __add__(self, o):
        return self._bin(o, lambda a, b: a + b)

    def __radd__(self, o):
        return self._bin(o, lambda a, b: a + b, True)

    def __sub__(self, o):
        return self._bin(o, lambda a, b: a - b)

    def __rsub__(self, o):
        return self._bin(o, lambda a, b: a - b, True)

    def __mul__(self, o):
        if isinstance(o, SymInt):
            raise Unsupported("SymInt * SymInt")
        return self._bin(o, lambda a, b: a * b)

    __rmul__ = __mul__

    def __mod__(self, k):
        if isinstance(k, (int, np.integer)) and k > 0:
            return SymInt(self.e % int(k), self.vs)
        raise Unsupported("SymInt % non-constant")

    def __floordiv__(self, k):
        if isinstance(k, (int, np.integer)) and k > 0:
            return SymInt(self.e / int(k), self.vs)
        raise Unsupported("SymInt // non-constant")

    def __neg__(self):
        return SymInt(-self.e, self.vs)

    def __pos__(self):
        return self

    def _cmp(self, o, op):
        l = SymInt._lift(o)
        if l is None:
            if isinstance(o, (float, np.floating)) and float(o) == float(o):
                # integer vs real constant: k < x <=> k < ceil(x) etc.
                import math as _m
                f = float(o)
                lo, hi = _m.floor(f), _m.ceil(f)
                a = self.e
                e = {"lt": a < hi, "le": a <= lo, "gt": a > lo, "ge": a >= hi,
                     "eq": (a == lo) if lo == hi else z3.BoolVal(False)}[op]
                return SymBool(e, self.vs, False)
            return NotImplemented
        a, b = self.e, l[0]
        e = {"lt": a < b, "le": a <= b, "gt": a > b, "ge": a >= b, "eq": a == b}[op]
        return SymBool(e, self.vs | l[1], False)

    def __lt__(self, o):
        return self._cmp(o, "lt")

    def __le__(self, o):
        return self._cmp(o, "le")

    def __gt__(self, o):
        return self._cmp(o, "gt")

    def __ge__(self, o):
        return self._cmp(o, "ge")

    def __eq__(self, o):
        r = self._cmp(o, "eq")
        return False if r is NotImplemented else r

    def __ne__(self, o):
        r = self._cmp(o, "eq")
        return True if r is NotImplemented else s_not(r)

    def __hash__(self):
        return 23

    def __bool__(self):
        return bool(self != 0)

    def __index__(self):
        raise Unsupported("SymInt used as a concrete index")

    def _sym_plain(self, c):
        return int(c._eval(self.e).as_long())

    def __repr__(self):
        return "SymInt(#%d)" % self.e.get_id()


def sym_int_var(c, name, lo=None, hi=None):
    if c.mode == "conc":
        if name not in c.values:
            raise ReplayIncomplete(name)
        return int(_str_to_frac(str(c.values[name])))
    v = c._declare(name, "int")
    x = SymInt(v, frozenset([name]))
    if lo is not None:
        c.assume(x >= lo)
    if hi is not None:
        c.assume(x <= hi)
    return x


def ceil_div(c, a, k: int):
    """ceil(a / k) for a >= 0 and a concrete k > 0, as a SymInt (fresh var + constraints)."""
    if not isinstance(a, SymInt):
        return -(-a // k)
    c.fresh_n += 1
    name = "cdiv!%d" % c.fresh_n
    v = c._declare(name, "int")
    q = SymInt(v, frozenset([name]))
    c.assume(SymBool(z3.And(q.e * k >= a.e, (q.e - 1) * k < a.e), q.vs | a.vs))
    return q


class SymProgression:
    """first, first+step, ..., ``count`` elements (count is a SymInt >= 0, step a concrete
    int).  ``scale``/``offset`` arithmetic keeps it a progression."""

    def __init__(self, first, step: int, count):
        self.first = first
        self.step = step
        self.count = count

    def __len__(self):
        raise Unsupported("len() of a symbolic progression (use .count)")

    def _affine(self, mul, add):
        f = self.first * mul + add
        return SymProgression(f, self.step * mul, self.count)

    def __mul__(self, k):
        if isinstance(k, (int, np.integer, bool)):
            return self._affine(int(k), 0)
        return NotImplemented

    __rmul__ = __mul__

    def __add__(self, k):
        if isinstance(k, (int, np.integer, SymInt)):
            return SymProgression(self.first + k, self.step, self.count)
        return NotImplemented

    __radd__ = __add__

    def __sub__(self, k):
        if isinstance(k, (int, np.integer, SymInt)):
            return SymProgression(self.first - k, self.step, self.count)
        return NotImplemented

    def at(self, j):
        return self.first + j * self.step if self.step != 0 else self.first

    def __neg__(self):
        return self._affine(-1, 0)

    def copy(self):
        return SymProgression(self.first, self.step, self.count)

    def astype(self, *a, **k):
        return self


class SymArange:
    """np.arange(n) with a symbolic n >= 0; only slicing is supported."""

    def __init__(self, n):
        self.n = n

    def __getitem__(self, sl):
        c = ctx()
        if not isinstance(sl, slice):
            raise Unsupported("SymArange index")
        if sl.start is not None:
            raise Unsupported("SymArange slice start")
        step = 1 if sl.step is None else sl.step
        if not isinstance(step, (int, np.integer)) or step <= 0:
            raise Unsupported("SymArange slice step")
        stop = sl.stop
        n = self.n
        if stop is None:
            eff = n
        else:
            # python: negative stop counts from the end; then clamp to [0, n]
            if bool(stop < 0):
                eff = n + stop
                if bool(eff < 0):
                    eff = 0
            else:
                eff = stop
                if bool(eff > n):
                    eff = n
        count = ceil_div(c, eff, int(step)) if not isinstance(eff, int) else -(-eff // int(step))
        return SymProgression(0, int(step), count)


class FakeTimesteps:
    """Stand-in for Transmitter.timesteps when only its length matters."""

    def __init__(self, n):
        self.n = n


def sym_len(x):
    if isinstance(x, FakeTimesteps):
        return x.n
    return len(x)


class NumpyShim:
    """Module-level ``np`` replacement: ``arange`` of a SymInt gives a SymArange;
    everything else is numpy."""

    def __getattr__(self, name):
        return getattr(np, name)

    @staticmethod
    def zeros_like(a, *x, **k):
        if isinstance(a, SymProgression):
            return SymProgression(0, 0, a.count)
        return np.zeros_like(a, *x, **k)

    @staticmethod
    def ones_like(a, *x, **k):
        if isinstance(a, SymProgression):
            return SymProgression(1, 0, a.count)
        return np.ones_like(a, *x, **k)

    @staticmethod
    def full_like(a, fill, *x, **k):
        if isinstance(a, SymProgression):
            return SymProgression(fill, 0, a.count)
        return np.full_like(a, fill, *x, **k)

    @staticmethod
    def asarray(a, *x, **k):
        if isinstance(a, SymProgression):
            return a
        return np.asarray(a, *x, **k)

    array = asarray

    @staticmethod
    def arange(n, *a, **k):
        if isinstance(n, SymInt):
            return SymArange(n)
        return np.arange(n, *a, **k)
