"""Run-time stubs: names shadowed in the globals of a module under test for the duration
of one harness run (e.g. ``int`` / ``float`` which cannot return a proxy).  Nothing in
/repo is edited; every stub in force is listed in the evidence."""
_SAVED = {}
_MISSING = object()


def install(module, name, value):
    key = (module.__name__, name)
    if key not in _SAVED:
        _SAVED[key] = module.__dict__.get(name, _MISSING)
    module.__dict__[name] = value


def uninstall(module, name):
    key = (module.__name__, name)
    old = _SAVED.pop(key, _MISSING)
    if old is _MISSING:
        module.__dict__.pop(name, None)
    else:
        module.__dict__[name] = old


def uninstall_all():
    import sys
    for (modname, name) in list(_SAVED):
        mod = sys.modules.get(modname)
        if mod is not None:
            uninstall(mod, name)
        else:
            _SAVED.pop((modname, name), None)
