"""Family K (DESIGN §3.3): a Gregorian calendar theory over z3 integers, and stand-ins for
the names ``datetime`` / ``calendar`` / ``pd.date_range`` / ``BDay`` inside
``tradingenv.contracts`` so that the real expiry rules execute with a *symbolic year*.

A ``SymDate`` is (year: SymInt | int, month: int, day: int) at midnight.  Only the year is
symbolic (the month is enumerated by the harness); the day number since 1970-01-01 is the
linear-integer term of Hinnant's days_from_civil, weekday = (n + 3) mod 7.  Day arithmetic
rolls over month ends using the month length, forking on leap(year) when February is
crossed.  The stand-ins are the trusted part: ``selfcheck()`` compares them with the real
datetime / calendar / pandas functions on every day of 1970-2099.
"""
from __future__ import annotations

import calendar as _calendar
from datetime import datetime as _datetime, timedelta as _timedelta

import numpy as np
import pandas as _pd
import z3
from pandas.tseries.offsets import BDay as _BDay

from .core import SymBool, Unsupported, ctx, HarnessError, _EMPTY
from .intproxy import SymInt

DAYNAMES = ["Monday", "Tuesday", "Wednesday", "Thursday", "Friday", "Saturday", "Sunday"]
YY = []          # per-path table of two-digit-year placeholders: index -> year (SymInt)


def _fdiv(a, k):
    """floor(a / k) for SymInt | int a and concrete k > 0."""
    if isinstance(a, SymInt):
        return SymInt(a.e / k, a.vs)        # z3 Int division by a positive constant = floor
    return a // k


def _mod(a, k):
    if isinstance(a, SymInt):
        return SymInt(a.e % k, a.vs)
    return a % k


def days_from_civil(y, m: int, d: int):
    """Days since 1970-01-01 (Hinnant), y possibly symbolic, m and d concrete."""
    if m <= 2:
        y = y - 1
    era = _fdiv(y, 400)                      # y >= 0 in the domain
    yoe = y - era * 400
    mp = m - 3 if m > 2 else m + 9
    doy = (153 * mp + 2) // 5 + d - 1
    doe = yoe * 365 + _fdiv(yoe, 4) - _fdiv(yoe, 100) + doy
    return era * 146097 + doe - 719468


def is_leap(y):
    """bool | SymBool"""
    if isinstance(y, SymInt):
        e = z3.Or(z3.And(y.e % 4 == 0, y.e % 100 != 0), y.e % 400 == 0)
        return SymBool(e, y.vs, False)
    return (y % 4 == 0 and y % 100 != 0) or y % 400 == 0


def days_in_month(y, m: int) -> int:
    """Concrete month length; forks on leap(y) for February."""
    if m == 2:
        return 29 if bool(is_leap(y)) else 28
    return 30 if m in (4, 6, 9, 11) else 31


def concretize(x, lo, hi):
    """A python int for a SymInt known to lie in [lo, hi] (forks over the feasible values)."""
    if not isinstance(x, SymInt):
        return int(x)
    for v in range(lo, hi + 1):
        if bool(x == v):
            return v
    raise HarnessError("concretize: value outside [%d, %d]" % (lo, hi))


class YYStr(str):
    """Result of strftime('%y') on a symbolic year: a placeholder whose meaning (the year)
    is recorded in the YY table."""


_WD_CACHE = {}      # per path: (year term id, month) -> (day, weekday) once concretised


def _wd_key(y, m):
    return (("s", y.e.get_id()) if isinstance(y, SymInt) else ("c", y), m)


class SymDate:
    __slots__ = ("y", "m", "d", "_n", "_wd")

    def __init__(self, y, m, d, wd=None):
        if isinstance(m, SymInt) or isinstance(d, SymInt):
            raise Unsupported("SymDate with symbolic month/day")
        self.y, self.m, self.d = y, int(m), int(d)
        self._n = None
        self._wd = wd

    # -- basic views
    @property
    def year(self):
        return self.y

    @property
    def month(self):
        return self.m

    @property
    def day(self):
        return self.d

    @property
    def n(self):
        if self._n is None:
            self._n = days_from_civil(self.y, self.m, self.d)
        return self._n

    def weekday_term(self):
        return _mod(self.n + 3, 7)

    def weekday(self):
        """Concrete weekday on this path.  Decided by the solver once per (year term,
        month); other days of the same month follow by (d2 - d1) mod 7, and dates obtained
        by day arithmetic inherit it."""
        if self._wd is not None:
            return self._wd
        if not isinstance(self.y, SymInt):
            self._wd = int(self.weekday_term())
            return self._wd
        c = ctx()
        cache = c.__dict__.setdefault("_wd_cache", {})      # lives and dies with the path
        key = _wd_key(self.y, self.m)
        hit = cache.get(key)
        if hit is not None and (not isinstance(self.y, SymInt) or hit[2] is self.y or hit[2].e.eq(self.y.e)):
            self._wd = (hit[1] + self.d - hit[0]) % 7
            return self._wd
        self._wd = concretize(self.weekday_term(), 0, 6)
        cache[key] = (self.d, self._wd, self.y)
        return self._wd

    def date(self):
        return self

    def to_pydatetime(self):
        return self

    def isoweekday(self):
        return self.weekday() + 1

    def toordinal(self):
        return self.n + 719163

    def strftime(self, fmt):
        if fmt == "%A":
            return DAYNAMES[self.weekday()]
        if fmt == "%y":
            if not isinstance(self.y, SymInt):
                return "%02d" % (self.y % 100)
            YY.append(self.y)
            return YYStr("<yy%d>" % (len(YY) - 1))
        raise Unsupported("strftime(%r)" % fmt)

    def replace(self, day=None, **kw):
        if kw:
            raise Unsupported("SymDate.replace(%s)" % list(kw))
        if isinstance(day, SymInt):
            day = concretize(day, 1, 31)
        wd = None if self._wd is None else (self._wd + int(day) - self.d) % 7
        return SymDate(self.y, self.m, day, wd)

    # -- arithmetic in whole days
    def add_days(self, k: int):
        y, m, d = self.y, self.m, self.d + int(k)
        while d < 1:
            m -= 1
            if m == 0:
                m, y = 12, y - 1
            d += days_in_month(y, m)
        while True:
            dim = days_in_month(y, m)
            if d <= dim:
                break
            d -= dim
            m += 1
            if m == 13:
                m, y = 1, y + 1
        return SymDate(y, m, d, None if self._wd is None else (self._wd + int(k)) % 7)

    def __add__(self, o):
        if isinstance(o, _timedelta):
            if o.seconds or o.microseconds:
                raise Unsupported("sub-day timedelta on SymDate")
            return self.add_days(o.days)
        if isinstance(o, BDayShim):
            return o.apply(self, +1)
        return NotImplemented

    __radd__ = __add__

    def __sub__(self, o):
        if isinstance(o, _timedelta):
            if o.seconds or o.microseconds:
                raise Unsupported("sub-day timedelta on SymDate")
            return self.add_days(-o.days)
        if isinstance(o, BDayShim):
            return o.apply(self, -1)
        return NotImplemented

    # -- order
    def _cmp(self, o, op):
        if isinstance(o, SymDate):
            a, b = self.n, o.n
        elif isinstance(o, _datetime):
            a, b = self.n, (o - _datetime(1970, 1, 1)).days
            if o.hour or o.minute or o.second or o.microsecond:
                raise Unsupported("SymDate vs intraday datetime")
        else:
            return NotImplemented
        return {"lt": lambda: a < b, "le": lambda: a <= b, "gt": lambda: a > b, "ge": lambda: a >= b,
                "eq": lambda: a == b}[op]()

    def __lt__(self, o):
        return self._cmp(o, "lt")

    def __le__(self, o):
        return self._cmp(o, "le")

    def __gt__(self, o):
        return self._cmp(o, "gt")

    def __ge__(self, o):
        return self._cmp(o, "ge")

    def __eq__(self, o):
        r = self._cmp(o, "eq")
        return False if r is NotImplemented else r

    def __ne__(self, o):
        r = self._cmp(o, "eq")
        if r is NotImplemented:
            return True
        return ~r if isinstance(r, SymBool) else (not r)

    def __hash__(self):
        return 29

    def _sym_plain(self, c):
        y = self.y._sym_plain(c) if isinstance(self.y, SymInt) else self.y
        return "%04d-%02d-%02d" % (y, self.m, self.d)

    def __repr__(self):
        return "SymDate(%s-%02d-%02d)" % (self.y, self.m, self.d)


# ------------------------------------------------------------------ stand-ins


class _DatetimeMeta(type):
    def __instancecheck__(cls, obj):
        return isinstance(obj, (_datetime, SymDate))


class DatetimeShim(metaclass=_DatetimeMeta):
    """``datetime`` inside tradingenv.contracts: SymDate when the year is symbolic."""
    min = _datetime.min
    max = _datetime.max
    now = staticmethod(_datetime.now)

    def __new__(cls, year, month=None, day=None, *a, **k):
        if isinstance(year, SymInt):
            if a or k:
                raise Unsupported("intraday SymDate")
            return SymDate(year, month, day)
        return _datetime(year, month, day, *a, **k)


class CalendarShim:
    def __getattr__(self, name):
        return getattr(_calendar, name)

    @staticmethod
    def monthrange(year, month):
        if isinstance(year, SymInt):
            return SymDate(year, month, 1).weekday_term(), days_in_month(year, month)
        return _calendar.monthrange(year, month)

    @staticmethod
    def weekday(year, month, day):
        if isinstance(year, SymInt):
            return SymDate(year, month, day).weekday_term()
        return _calendar.weekday(year, month, day)


class BDayShim:
    """pandas.tseries.offsets.BDay(n): business-day stepping (Mon-Fri, no holidays)."""

    def __init__(self, n=1):
        self.n = n

    def apply(self, date: SymDate, sign):
        n = self.n * sign
        wd = date.weekday()                    # concretised by forking
        return date.add_days(bday_offset(wd, n))

    def __rsub__(self, o):
        return o - _BDay(self.n)

    def __radd__(self, o):
        return o + _BDay(self.n)


def bday_offset(wd: int, n: int) -> int:
    """Calendar-day offset of ``date + BDay(n)`` for a date on weekday ``wd`` — pandas
    semantics (a weekend date first rolls to the adjacent business day in the direction of
    travel, which consumes one step)."""
    off = 0
    cur = wd
    step = 1 if n > 0 else -1
    left = abs(n)
    if cur >= 5 and left > 0:
        # roll onto a business day: forward to Monday / backward to Friday, consuming a step
        while cur >= 5:
            cur = (cur + step) % 7
            off += step
        left -= 1
    while left > 0:
        cur = (cur + step) % 7
        off += step
        if cur < 5:
            left -= 1
    return off


class PandasShim:
    def __getattr__(self, name):
        return getattr(_pd, name)

    @staticmethod
    def Timestamp(*a, **k):
        year = k.get("year", a[0] if a else None)
        if isinstance(year, SymInt):
            month = k.get("month", a[1] if len(a) > 1 else None)
            day = k.get("day", a[2] if len(a) > 2 else None)
            if len(a) > 3 or set(k) - {"year", "month", "day"}:
                raise Unsupported("intraday pd.Timestamp on a symbolic year")
            return SymDate(year, month, day)
        return _pd.Timestamp(*a, **k)

    @staticmethod
    def to_datetime(x, *a, **k):
        if isinstance(x, SymDate):
            return x
        return _pd.to_datetime(x, *a, **k)

    @staticmethod
    def date_range(start=None, end=None, periods=None, freq=None, **kw):
        if isinstance(start, SymDate):
            if freq != "B" or periods is None or end is not None:
                raise Unsupported("date_range on SymDate")
            out = []
            wd = start.weekday()
            off = 0
            while wd >= 5:                       # roll forward to the first business day
                wd = (wd + 1) % 7
                off += 1
            cur = start.add_days(off) if off else start
            for _ in range(periods):
                out.append(cur)
                step = 3 if wd == 4 else 1
                wd = (wd + step) % 7
                cur = cur.add_days(step)
            return out
        return _pd.date_range(start=start, end=end, periods=periods, freq=freq, **kw)


STAND_INS = {"datetime": DatetimeShim, "calendar": CalendarShim(), "pd": PandasShim(), "BDay": BDayShim}


# ------------------------------------------------------------------ validation of the theory


def selfcheck(y0=1970, y1=2099):
    """Compare the theory with the real datetime / calendar / pandas on every day of
    y0..y1 (concrete by nature).  -> number of days compared.  Raises on disagreement."""
    epoch = _datetime(1970, 1, 1)
    n = 0
    d = _datetime(y0, 1, 1)
    end = _datetime(y1, 12, 31)
    one = _timedelta(days=1)
    while d <= end:
        num = days_from_civil(d.year, d.month, d.day)
        if num != (d - epoch).days:
            raise HarnessError("days_from_civil wrong on %s" % d)
        if (num + 3) % 7 != d.weekday():
            raise HarnessError("weekday wrong on %s" % d)
        if d.day == 1:
            if days_in_month(d.year, d.month) != _calendar.monthrange(d.year, d.month)[1]:
                raise HarnessError("month length wrong on %s" % d)
        n += 1
        d += one
    # add_days against timedelta, on a spread of dates and offsets
    for (yy, mm, dd) in [(1972, 2, 28), (1999, 12, 31), (2000, 2, 29), (2024, 3, 1), (2099, 1, 15), (2100 - 1, 12, 1)]:
        for k in (-62, -31, -30, -14, -8, -2, -1, 0, 1, 2, 30, 32, 45, 62):
            a = SymDate(yy, mm, dd).add_days(k)
            b = _datetime(yy, mm, dd) + _timedelta(days=k)
            if (a.y, a.m, a.d) != (b.year, b.month, b.day):
                raise HarnessError("add_days wrong: %s %+d" % ((yy, mm, dd), k))
    # BDay stepping against pandas, every weekday, n in -3..3
    base = _datetime(2024, 1, 1)       # a Monday
    for wd in range(7):
        for k in (-3, -2, -1, 1, 2, 3):
            ts = _pd.Timestamp(base + _timedelta(days=wd))
            want = (ts + _BDay(k)) if k > 0 else (ts - _BDay(-k))
            if (want - ts).days != bday_offset(wd, k):
                raise HarnessError("BDay wrong: weekday %d n %d: %d vs %d" % (wd, k, (want - ts).days, bday_offset(wd, k)))
    # date_range(freq='B', periods=31) from every weekday
    for wd in range(7):
        st = base + _timedelta(days=wd)
        want = list(_pd.date_range(st, periods=31, freq="B"))
        got = PandasShim.date_range(SymDate(st.year, st.month, st.day), periods=31, freq="B")
        for a, b in zip(want, got):
            if (a.year, a.month, a.day) != (b.y, b.m, b.d):
                raise HarnessError("date_range wrong from weekday %d" % wd)
    return n
