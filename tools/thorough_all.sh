#!/bin/sh
# Development aid: run every thorough check once, sequentially, and print verdict + wall time.
cd "$(dirname "$0")/.."
for p in ${@:-C01 C02 C03 C04 C05 C06 C07 C08 C09 C10 C11 C12 C13 C14 C15 C17 C19}; do
  s=$(date +%s)
  out=$(./check $p --tier thorough --no-evidence 2>&1 | grep -v "^   " | tail -4)
  e=$(date +%s)
  echo "== $p wall=$((e-s))s"; echo "$out" | cut -c1-400
done
