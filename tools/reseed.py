#!/usr/bin/env python3
"""Development aid: re-run the quick check of every seeded change under /verif/seeded/ against a
scratch copy of /repo with the change applied, and report which are (still) caught.

usage: tools/reseed.py [name-substring ...] [-j N]

Every scratch copy lives under /tmp and is removed as soon as its check has finished."""
import json
import os
import shutil
import subprocess
import sys
import tempfile
from concurrent.futures import ThreadPoolExecutor

HERE = os.path.dirname(os.path.dirname(os.path.abspath(__file__)))


def one(name):
    d = os.path.join(HERE, "seeded", name)
    meta = json.load(open(os.path.join(d, "meta.json")))
    prop = meta["property"]
    root = tempfile.mkdtemp(prefix="reseed_", dir="/tmp")
    try:
        subprocess.run("git -C /repo archive HEAD | tar -x -C %s" % root, shell=True, check=True)
        r = subprocess.run("patch -p1 -s < %s/patch.diff" % d, shell=True, cwd=root, capture_output=True, text=True)
        if r.returncode != 0:
            return name, prop, "patch-failed", ""
        r = subprocess.run([os.path.join(HERE, "check"), prop, "--tier", "quick", "--no-evidence"],
                           env=dict(os.environ, VERIF_REPO=root), capture_output=True, text=True)
        first = [l for l in r.stdout.splitlines() if l.startswith("   obligation")][:1]
        return name, prop, r.returncode, (first[0].strip()[:120] if first else "")
    finally:
        shutil.rmtree(root, ignore_errors=True)


def main():
    args = sys.argv[1:]
    jobs = 2
    if "-j" in args:
        i = args.index("-j")
        jobs = int(args[i + 1])
        del args[i:i + 2]
    names = sorted(os.listdir(os.path.join(HERE, "seeded")))
    if args:
        names = [n for n in names if any(a in n for a in args)]
    bad = 0
    with ThreadPoolExecutor(jobs) as ex:
        for name, prop, rc, first in ex.map(one, names):
            ok = rc == 1
            bad += not ok
            print("%-6s %-4s exit=%s %s %s" % (name, prop, rc, "caught" if ok else "MISSED", first), flush=True)
    print("%d seeds, %d not caught" % (len(names), bad))
    return 1 if bad else 0


if __name__ == "__main__":
    sys.exit(main())
