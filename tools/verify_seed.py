#!/usr/bin/env python3
"""Development aid: confirm a seeded change handed in by a sub-agent and file it under
/verif/seeded/<name>/.

usage: tools/verify_seed.py <PROP> <out-dir-of-agent> [--name NAME] [--checks C01,C05] [--thorough]

Steps (all in a scratch copy of /repo outside /repo and /verif, removed at the end):
  1. apply patch.diff to a copy of /repo's HEAD tree;
  2. the repository's own suite must still pass on it;
  3. the demonstration must FAIL with the change and PASS on /repo;
  4. run the listed checks (default: the property's own) against the scratch tree.
The result goes to /verif/seeded/<name>/{patch.diff, demo_test.py, meta.json}."""
import json
import os
import shutil
import subprocess
import sys
import tempfile

HERE = os.path.dirname(os.path.dirname(os.path.abspath(__file__)))


def sh(cmd, **kw):
    return subprocess.run(cmd, shell=True, capture_output=True, text=True, **kw)


def main():
    args = [a for a in sys.argv[1:] if not a.startswith("--")]
    prop, out = args[0], args[1]
    name = prop
    checks = [prop]
    for i, a in enumerate(sys.argv):
        if a == "--name":
            name = sys.argv[i + 1]
        if a == "--checks":
            checks = sys.argv[i + 1].split(",")
    args = [a for a in args if a not in (name,) or a == prop]
    thorough = "--thorough" in sys.argv
    root = tempfile.mkdtemp(prefix="seedchk_", dir="/tmp")
    meta = {"property": prop, "name": name}
    try:
        sh("git -C /repo archive HEAD | tar -x -C %s" % root)
        r = sh("patch -p1 < %s/patch.diff" % out, cwd=root)
        if r.returncode != 0:
            print("patch does not apply:", r.stdout, r.stderr)
            return 2
        env = dict(os.environ, PYTHONPATH=root)
        r = sh("/venv/bin/python -m pytest -q -p no:cacheprovider --timeout=900 --continue-on-collection-errors 2>&1 | tail -8",
               cwd=root, env=env)
        tail = r.stdout.strip().splitlines()
        summary = tail[-1] if tail else "?"
        failed = [l for l in tail if l.startswith("FAILED") and "test_readme" not in l]
        meta["suite_with_change"] = summary
        ok_suite = ("641 passed" in summary) and not failed
        print("suite with change:", summary, "" if ok_suite else "  <-- NOT the baseline")
        demo = os.path.join(out, "demo_test.py")
        r1 = sh("/venv/bin/python -m pytest -q -p no:cacheprovider %s 2>&1 | tail -3" % demo, cwd=root, env=env)
        r0 = sh("/venv/bin/python -m pytest -q -p no:cacheprovider %s 2>&1 | tail -3" % demo, cwd="/repo",
                env=dict(os.environ, PYTHONPATH="/repo"))
        meta["demo_with_change"] = r1.stdout.strip().splitlines()[-1] if r1.stdout.strip() else "?"
        meta["demo_without_change"] = r0.stdout.strip().splitlines()[-1] if r0.stdout.strip() else "?"
        demo_ok = ("failed" in meta["demo_with_change"]) and ("failed" not in meta["demo_without_change"]) \
            and ("passed" in meta["demo_without_change"])
        print("demo with change   :", meta["demo_with_change"])
        print("demo without change:", meta["demo_without_change"], "" if demo_ok else "  <-- demo does not discriminate")
        res = {}
        for p in checks:
            for tier in (["quick", "thorough"] if thorough else ["quick"]):
                r = subprocess.run([os.path.join(HERE, "check"), p, "--tier", tier, "--no-evidence"],
                                   env=dict(os.environ, VERIF_REPO=root), capture_output=True, text=True)
                viol = [l for l in r.stdout.splitlines() if l.startswith("VIOLATION property") or l.startswith("   obligation")][:4]
                res["%s/%s" % (p, tier)] = {"exit": r.returncode, "first": viol[:2]}
                print("check %s %s -> exit %d %s" % (p, tier, r.returncode, viol[1][:160] if len(viol) > 1 else ""))
                if r.returncode == 1:
                    break
        meta["checks"] = res
        meta["caught_by"] = sorted({k.split("/")[0] for k, v in res.items() if v["exit"] == 1})
        meta["confirmed"] = bool(ok_suite and demo_ok)
        notes = os.path.join(out, "notes.json")
        if os.path.exists(notes):
            try:
                n = json.load(open(notes))
                meta["summary"] = n.get("summary")
                meta["needs_to_manifest"] = n.get("needs_to_manifest")
            except ValueError:
                pass
        meta["what_was_run"] = ["patch -p1 on a copy of /repo HEAD", "repo suite (baseline command)", "demo_test.py with and without the change",
                                "./check <ID> with VERIF_REPO=<scratch tree>"]
        if meta["confirmed"]:
            dst = os.path.join(HERE, "seeded", name)
            os.makedirs(dst, exist_ok=True)
            shutil.copy(os.path.join(out, "patch.diff"), dst)
            shutil.copy(demo, dst)
            json.dump(meta, open(os.path.join(dst, "meta.json"), "w"), indent=1)
            print("filed under", dst, "caught_by", meta["caught_by"])
        else:
            print("NOT confirmed; nothing filed")
        return 0
    finally:
        shutil.rmtree(root, ignore_errors=True)


if __name__ == "__main__":
    sys.exit(main())
