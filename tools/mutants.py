#!/usr/bin/env python3
"""Development aid (not a registered check): apply one realistic regression at a time to a
scratch copy of /repo/tradingenv and run the quick (or thorough) checks of the properties it
should break.  Usage: tools/mutants.py [--suite] [--tier quick] [name-substring ...]
--suite also runs the repository's own test-suite on the mutant (a mutant that the suite
already kills says nothing about the checks)."""
import os
import re
import shutil
import subprocess
import sys
import tempfile

HERE = os.path.dirname(os.path.dirname(os.path.abspath(__file__)))

# (name, file, old, new, [properties expected to catch it])
M = [
    ("year360", "broker/broker.py", "SECONDS_IN_YEAR = 365 * 24", "SECONDS_IN_YEAR = 360 * 24", ["C06"]),
    ("markup_sign", "broker/broker.py", "- self.fees.markup * np.sign(amount)", "+ self.fees.markup * np.sign(amount)", ["C06"]),
    ("floor_removed", "broker/broker.py", "if amount > 0. and accrued_interest < 0.:", "if False:", ["C06"]),
    ("accrual_clock_on_query", "broker/broker.py", "        if accrue:\n            self._holdings_quantity[self.base_currency] += accrued_interest\n            self._last_accrual = now",
     "        self._last_accrual = now\n        if accrue:\n            self._holdings_quantity[self.base_currency] += accrued_interest", ["C06"]),
    ("interest_on_margin", "broker/broker.py", "        amount = self._holdings_quantity[self.base_currency]\n\n        # Compounded",
     "        amount = self._holdings_quantity[self.base_currency] + sum(self._holdings_margins.values())\n\n        # Compounded", ["C06"]),
    ("commission_on_quantity", "broker/fees.py", "abs(trade.notional) * self.proportional", "abs(trade.quantity) * self.proportional", ["C01"]),
    ("acq_swapped", "broker/trade.py", "self.acq_price = ask_price if quantity > 0 else bid_price", "self.acq_price = ask_price if quantity < 0 else bid_price", ["C01", "C03"]),
    ("margin_no_abs", "broker/broker.py", "liq_price * abs(quantity) * contract.multiplier * contract.margin_requirement", "liq_price * quantity * contract.multiplier * contract.margin_requirement", ["C05", "C01"]),
    ("sweep_dropped", "broker/broker.py", "            self._holdings_quantity[self.base_currency] += excess_margin\n", "", ["C01", "C05"]),
    ("liq_side_flip", "broker/broker.py", "order_book.bid_price if quantity >= 0 else order_book.ask_price", "order_book.bid_price if quantity <= 0 else order_book.ask_price", ["C01", "C05"]),
    ("weights_over_deposit", "broker/broker.py", "contract: value / nlv\n", "contract: value / self._initial_deposit\n", ["C05"]),
    ("epsilon_big", "broker/broker.py", "epsilon: float = 1e-7", "epsilon: float = 1e-5", ["C01", "C03"]),
    ("nr_mid_price", "broker/allocation.py", "avg_price = broker.exchange[contract].acq_price(weight)", "avg_price = broker.exchange[contract].mid_price", ["C03"]),
    ("nr_mult_twice", "broker/allocation.py", "weight * nlv / avg_price / contract.multiplier", "weight * nlv / avg_price / contract.multiplier / contract.multiplier", ["C03"]),
    ("zero_weight_kept", "broker/allocation.py", "            if value != 0\n", "", ["C03", "C12"]),
    ("threshold_le", "broker/rebalancing.py", "abs(weights[contract]) < self.margin and", "abs(weights[contract]) <= self.margin and", ["C12"]),
    ("threshold_or", "broker/rebalancing.py", "< self.margin and contract in self.allocation", "< self.margin or contract in self.allocation", ["C12"]),
    ("threshold_on_liquidation", "broker/rebalancing.py", "< self.margin and contract in self.allocation", "< self.margin", ["C12"]),
    ("round_lots", "broker/rebalancing.py", "quantity = int(quantity)", "quantity = round(quantity)", ["C12"]),
    ("nan_check_dropped", "broker/broker.py", "                if np.isnan(liq_price):\n                    raise ValueError(\n                        \"Missing liquidation transaction_price for {}.\".format(contract)\n                    )\n", "", ["C13"]),
    ("dead_book_updates", "exchange.py", "        if book.is_alive:\n            book.update(event)", "        book.update(event)", ["C13", "C14"]),
    ("lazy_trades", "broker/broker.py", "        rebalancing.trades = rebalancing.make_trades(self)\n        for trade in rebalancing.trades:\n            self.transact(trade)",
     "        rebalancing.trades = []\n        for trade in rebalancing.make_trades_lazy(self):\n            rebalancing.trades.append(trade)\n            self.transact(trade)", ["C13"]),
]


M += [
    # ---- family E
    ("events_before_rebalance", "env.py", "        try:\n            self.broker.rebalance(rebalancing)\n        except EndOfEpisodeError:\n            info = dict()\n            self._done = True\n        else:\n            info = {\"_rebalancing\": rebalancing}\n        self._process_nonlatent_events()\n",
     "        self._process_nonlatent_events()\n        try:\n            self.broker.rebalance(rebalancing)\n        except EndOfEpisodeError:\n            info = dict()\n            self._done = True\n        else:\n            info = {\"_rebalancing\": rebalancing}\n", ["C02", "C08", "C04"]),
    ("bisect_right_slot", "transmitter.py", "index = bisect.bisect_left(self.timesteps, event.time)", "index = bisect.bisect_right(self.timesteps, event.time)", ["C04", "C08"]),
    ("latency_lt", "transmitter.py", "if sec_since_timestep <= latency:", "if sec_since_timestep < latency:", ["C04", "C08"]),
    ("latency_wrong_neighbour", "transmitter.py", "sec_since_timestep = (event.time - timestep_previous).total_seconds()", "sec_since_timestep = (timestep - event.time).total_seconds()", ["C04", "C08", "C02"]),
    ("unstable_sort", "transmitter.py", "        for event in sorted(events):", "        for event in sorted(events, key=lambda e: (e.time, -id(e) % 7)):", ["C04"]),
    ("drop_last_filter", "transmitter.py", "events = sorted(e for e in self.events if e.time <= self.timesteps[-1])", "events = sorted(e for e in self.events if e.time < self.timesteps[-1])", ["C04"]),
    ("warmup_sign", "transmitter.py", "origin = (self._current_time - self._warmup) if self._warmup else datetime.min", "origin = (self._current_time + self._warmup) if self._warmup else datetime.min", ["C04"]),
    ("fold_end_exclusive", "transmitter.py", "steps = steps[steps <= end_date]", "steps = steps[steps < end_date]", ["C15", "C04"]),
    ("episode_len_off_by_one", "transmitter.py", "start_dates = steps[: -(episode_length - 1)]", "start_dates = steps[: -episode_length]", ["C15"]),
    ("env_len_no_plus_one", "env.py", "            episode_length += 1\n", "            episode_length += 0\n", ["C15"]),
    ("walk_step", "transmitter.py", "train_start = count[: -train_size - test_size + 1 : test_size]", "train_start = count[: -train_size - test_size + 1 : max(test_size - 1, 1)]", ["C15"]),
    ("walk_test_start", "transmitter.py", "test_start=train_start + train_size,", "test_start=train_start + train_size - 1,", ["C15"]),
    ("queue_popleft", "env.py", "        action = self._queue_actions.pop()", "        action = self._queue_actions.popleft()", ["C08"]),
    ("queue_maxlen", "env.py", "maxlen=self._steps_delay + 1,", "maxlen=max(self._steps_delay, 1),", ["C08"]),
    ("reward_uses_post", "rewards.py", "class RewardSimpleReturn(AbstractReward):\n    \"\"\"Simple change of the net liquidation value of the account at each\n    step.\"\"\"\n\n    def calculate(self, env: \"tradingenv.env.TradingEnv\") -> float:\n        nlv_last_rebalancing = env.broker.track_record[-1].context_pre.nlv",
     "class RewardSimpleReturn(AbstractReward):\n    \"\"\"Simple change of the net liquidation value of the account at each\n    step.\"\"\"\n\n    def calculate(self, env: \"tradingenv.env.TradingEnv\") -> float:\n        nlv_last_rebalancing = env.broker.track_record[-1].context_post.nlv", ["C07"]),
    ("clip_before_scale", "rewards.py", "        ret /= self.scale\n        ret = np.clip(ret, -self.clip, +self.clip)", "        ret = np.clip(ret, -self.clip, +self.clip)\n        ret /= self.scale", ["C07"]),
    ("context_post_stale", "broker/broker.py", "        rebalancing.context_post = self.context()\n", "        rebalancing.context_post = rebalancing.context_pre if not rebalancing.trades else self.context()\n", ["C07"]),
    ("nlv_raise_lt", "broker/broker.py", "if raise_if_broke and nlv <= 0:", "if raise_if_broke and nlv < 0:", ["C09"]),
    ("done_not_set", "env.py", "        except EndOfEpisodeError:\n            info = dict()\n            self._done = True\n", "        except EndOfEpisodeError:\n            info = dict()\n", ["C09"]),
    ("last_event_not_reset", "env.py", "        self._done = False\n        self._last_event = None\n", "        self._done = False\n", ["C10", "C04"]),
    ("reward_state_survives", "env.py", "        self._reward.reset()\n", "", ["C10"]),
    ("contains_one_side", "spaces.py", "            and np.all(x >= self.low)\n            and np.all(x <= self.high)", "            and np.all(x >= self.low)", ["C17"]),
    ("membership_after", "spaces.py", "        if action not in self:\n            raise ValueError(\n                \"This action does not belong to the action observation_space {}: {}\"\n                \"\".format(self.__class__.__name__, action)\n            )\n        return Rebalancing(", "        return Rebalancing(", ["C17"]),
    ("cash_traded", "broker/allocation.py", "            if not isinstance(contract, Cash)\n", "", ["C17", "C12"]),
    ("exchange_mid_for_flat", "exchange.py", "        elif quantity == 0:\n            return self.mid_price", "        elif quantity == 0:\n            return self.ask_price", ["C14"]),
    ("terminate_keeps_quotes", "exchange.py", "        history = self.history\n        self.__init__()\n        self.history = history", "        history = self.history", ["C14", "C13"]),
]


M += [
    # ---- family K and the rest
    ("es_second_friday", "contracts.py", "        return dates[\"Friday\"][2]", "        return dates[\"Friday\"][1]", ["C19"]),
    ("nk_third_friday", "contracts.py", "        return dates[\"Friday\"][1]", "        return dates[\"Friday\"][2]", ["C19"]),
    ("vx_mod", "contracts.py", "                                     1) + 2) % 7", "                                     1) + 3) % 7", ["C19"]),
    ("vx_31_days", "contracts.py", "next_month = this_month + timedelta(days=32)", "next_month = this_month + timedelta(days=31)", ["C19"]),
    ("vx_minus_29", "contracts.py", "expiration = next_month_third_friday - timedelta(days=30)", "expiration = next_month_third_friday - timedelta(days=29)", ["C19"]),
    ("treasury_cutoff_after", "contracts.py", "return (expiry - timedelta(days=30)).replace(day=24)", "return (expiry - timedelta(days=3)).replace(day=28)", ["C19"]),
    ("symbol_month_of_ltd", "contracts.py", "month_code=self.month_codes[self.expiry.month],", "month_code=self.month_codes[self.last_trading_date.month],", ["C19"]),
    ("es_ltd_after", "contracts.py", "        return expiry - timedelta(days=8)", "        return expiry + timedelta(days=0)", ["C19", "C11"]),
    ("chain_bisect_left", "contracts.py", "idx = bisect_right(self._last_trading_dates, now)", "idx = bisect_left(self._last_trading_dates, now)", ["C11"]),
    ("chain_alloc_key", "broker/allocation.py", "            contract.static_hashing(): value", "            contract: value", ["C11"]),
    ("interest_record_double", "broker/broker.py", "rebalancing.profit_on_idle_cash = self.accrued_interest(rebalancing.time, True)", "rebalancing.profit_on_idle_cash = 2 * self.accrued_interest(rebalancing.time, True)", ["C07", "C06"]),
    ("step_event_stale", "env.py", "        self.notify(EventStep(self.now(), self.broker.track_record, action))", "        self.notify(EventStep(rebalancing.time, self.broker.track_record, action))", ["C04"]),
]


def apply(root, rel, old, new):
    p = os.path.join(root, "tradingenv", rel)
    s = open(p, newline="").read()
    crlf = "\r\n" in s
    if crlf:
        old, new = old.replace("\n", "\r\n"), new.replace("\n", "\r\n")
    if s.count(old) != 1:
        raise SystemExit("mutant pattern occurs %d times in %s: %r" % (s.count(old), rel, old[:60]))
    open(p, "w", newline="").write(s.replace(old, new))


EXTRA = {
    # lazy_trades needs a generator version of make_trades
    "lazy_trades": ("broker/rebalancing.py", "    def __repr__(self):\n        return '{}({})'.format(self.__class__.__name__, self.time)",
                    "    def make_trades_lazy(self, broker):\n        imbalance = self.allocation._to_nr_contracts(broker)\n        if self.absolute:\n            imbalance -= NrContracts(broker.holdings_quantity)\n        weights = imbalance._to_weights(broker)\n        for contract, quantity in imbalance.items():\n            if not self.fractional:\n                quantity = int(quantity)\n                if quantity == 0:\n                    continue\n            if abs(weights[contract]) < self.margin and contract in self.allocation:\n                continue\n            yield Trade(time=self.time, contract=contract, quantity=quantity, bid_price=broker.exchange[contract].bid_price, ask_price=broker.exchange[contract].ask_price, broker_fees=broker.fees)\n\n    def __repr__(self):\n        return '{}({})'.format(self.__class__.__name__, self.time)"),
}


def main():
    args = [a for a in sys.argv[1:] if not a.startswith("--")]
    suite = "--suite" in sys.argv
    tier = "thorough" if "--thorough" in sys.argv else "quick"
    rows = []
    for name, rel, old, new, props in M:
        if args and not any(a in name for a in args):
            continue
        root = tempfile.mkdtemp(prefix="mut_", dir="/tmp")
        try:
            shutil.copytree("/repo/tradingenv", os.path.join(root, "tradingenv"))
            apply(root, rel, old, new)
            if name in EXTRA:
                apply(root, *EXTRA[name])
            res = {}
            for p in props:
                env = dict(os.environ, VERIF_REPO=root)
                r = subprocess.run([os.path.join(HERE, "check"), p, "--tier", tier, "--no-evidence"], env=env,
                                   capture_output=True, text=True)
                res[p] = r.returncode
            st = ""
            if suite:
                shutil.copytree("/repo/tests", os.path.join(root, "tests"))
                for f in ("setup.py", "setup.cfg", "pyproject.toml"):
                    if os.path.exists("/repo/" + f):
                        shutil.copy("/repo/" + f, root)
                r = subprocess.run(["/venv/bin/python", "-m", "pytest", "-q", "-p", "no:cacheprovider", "-x",
                                    "--deselect", "tests/examples", "tests"], cwd=root, capture_output=True, text=True,
                                   env=dict(os.environ, PYTHONPATH=root))
                tail = r.stdout.strip().splitlines()[-1] if r.stdout.strip() else "?"
                st = " suite: " + tail
            caught = [p for p, rc in res.items() if rc == 1]
            print("%-28s %s%s %s" % (name, "CAUGHT by " + ",".join(caught) if caught else "MISSED", st,
                                     {p: rc for p, rc in res.items() if rc != 1} or ""))
            sys.stdout.flush()
            rows.append((name, caught))
        finally:
            shutil.rmtree(root, ignore_errors=True)
    missed = [n for n, c in rows if not c]
    print("mutants: %d, caught: %d, missed: %s" % (len(rows), len(rows) - len(missed), missed))


if __name__ == "__main__":
    main()
