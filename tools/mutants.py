#!/usr/bin/env python3
"""Development aid (not a registered check): apply one realistic regression at a time to a
scratch copy of /repo/tradingenv and run the quick (or thorough) checks of the properties it
should break.  Usage: tools/mutants.py [--suite] [--tier quick] [name-substring ...]
--suite also runs the repository's own test-suite on the mutant (a mutant that the suite
already kills says nothing about the checks)."""
import os
import re
import shutil
import subprocess
import sys
import tempfile

HERE = os.path.dirname(os.path.dirname(os.path.abspath(__file__)))

# (name, file, old, new, [properties expected to catch it])
M = [
    ("year360", "broker/broker.py", "SECONDS_IN_YEAR = 365 * 24", "SECONDS_IN_YEAR = 360 * 24", ["C06"]),
    ("markup_sign", "broker/broker.py", "- self.fees.markup * np.sign(amount)", "+ self.fees.markup * np.sign(amount)", ["C06"]),
    ("floor_removed", "broker/broker.py", "if amount > 0. and accrued_interest < 0.:", "if False:", ["C06"]),
    ("accrual_clock_on_query", "broker/broker.py", "        if accrue:\n            self._holdings_quantity[self.base_currency] += accrued_interest\n            self._last_accrual = now",
     "        self._last_accrual = now\n        if accrue:\n            self._holdings_quantity[self.base_currency] += accrued_interest", ["C06"]),
    ("interest_on_margin", "broker/broker.py", "        amount = self._holdings_quantity[self.base_currency]\n\n        # Compounded",
     "        amount = self._holdings_quantity[self.base_currency] + sum(self._holdings_margins.values())\n\n        # Compounded", ["C06"]),
    ("commission_on_quantity", "broker/fees.py", "abs(trade.notional) * self.proportional", "abs(trade.quantity) * self.proportional", ["C01"]),
    ("acq_swapped", "broker/trade.py", "self.acq_price = ask_price if quantity > 0 else bid_price", "self.acq_price = ask_price if quantity < 0 else bid_price", ["C01", "C03"]),
    ("margin_no_abs", "broker/broker.py", "liq_price * abs(quantity) * contract.multiplier * contract.margin_requirement", "liq_price * quantity * contract.multiplier * contract.margin_requirement", ["C05", "C01"]),
    ("sweep_dropped", "broker/broker.py", "            self._holdings_quantity[self.base_currency] += excess_margin\n", "", ["C01", "C05"]),
    ("liq_side_flip", "broker/broker.py", "order_book.bid_price if quantity >= 0 else order_book.ask_price", "order_book.bid_price if quantity <= 0 else order_book.ask_price", ["C01", "C05"]),
    ("weights_over_deposit", "broker/broker.py", "contract: value / nlv\n", "contract: value / self._initial_deposit\n", ["C05"]),
    ("epsilon_big", "broker/broker.py", "epsilon: float = 1e-7", "epsilon: float = 1e-5", ["C01", "C03"]),
    ("nr_mid_price", "broker/allocation.py", "avg_price = broker.exchange[contract].acq_price(weight)", "avg_price = broker.exchange[contract].mid_price", ["C03"]),
    ("nr_mult_twice", "broker/allocation.py", "weight * nlv / avg_price / contract.multiplier", "weight * nlv / avg_price / contract.multiplier / contract.multiplier", ["C03"]),
    ("zero_weight_kept", "broker/allocation.py", "            if value != 0\n", "", ["C03", "C12"]),
    ("threshold_le", "broker/rebalancing.py", "abs(weights[contract]) < self.margin and", "abs(weights[contract]) <= self.margin and", ["C12"]),
    ("threshold_or", "broker/rebalancing.py", "< self.margin and contract in self.allocation", "< self.margin or contract in self.allocation", ["C12"]),
    ("threshold_on_liquidation", "broker/rebalancing.py", "< self.margin and contract in self.allocation", "< self.margin", ["C12"]),
    ("round_lots", "broker/rebalancing.py", "quantity = int(quantity)", "quantity = round(quantity)", ["C12"]),
    ("nan_check_dropped", "broker/broker.py", "                if np.isnan(liq_price):\n                    raise ValueError(\n                        \"Missing liquidation transaction_price for {}.\".format(contract)\n                    )\n", "", ["C13"]),
    ("dead_book_updates", "exchange.py", "        if book.is_alive:\n            book.update(event)", "        book.update(event)", ["C13", "C14"]),
    ("lazy_trades", "broker/broker.py", "        rebalancing.trades = rebalancing.make_trades(self)\n        for trade in rebalancing.trades:\n            self.transact(trade)",
     "        rebalancing.trades = []\n        for trade in rebalancing.make_trades_lazy(self):\n            rebalancing.trades.append(trade)\n            self.transact(trade)", ["C13"]),
]


def apply(root, rel, old, new):
    p = os.path.join(root, "tradingenv", rel)
    s = open(p, newline="").read()
    crlf = "\r\n" in s
    if crlf:
        old, new = old.replace("\n", "\r\n"), new.replace("\n", "\r\n")
    if s.count(old) != 1:
        raise SystemExit("mutant pattern occurs %d times in %s: %r" % (s.count(old), rel, old[:60]))
    open(p, "w", newline="").write(s.replace(old, new))


EXTRA = {
    # lazy_trades needs a generator version of make_trades
    "lazy_trades": ("broker/rebalancing.py", "    def __repr__(self):\n        return '{}({})'.format(self.__class__.__name__, self.time)",
                    "    def make_trades_lazy(self, broker):\n        imbalance = self.allocation._to_nr_contracts(broker)\n        if self.absolute:\n            imbalance -= NrContracts(broker.holdings_quantity)\n        weights = imbalance._to_weights(broker)\n        for contract, quantity in imbalance.items():\n            if not self.fractional:\n                quantity = int(quantity)\n                if quantity == 0:\n                    continue\n            if abs(weights[contract]) < self.margin and contract in self.allocation:\n                continue\n            yield Trade(time=self.time, contract=contract, quantity=quantity, bid_price=broker.exchange[contract].bid_price, ask_price=broker.exchange[contract].ask_price, broker_fees=broker.fees)\n\n    def __repr__(self):\n        return '{}({})'.format(self.__class__.__name__, self.time)"),
}


def main():
    args = [a for a in sys.argv[1:] if not a.startswith("--")]
    suite = "--suite" in sys.argv
    tier = "thorough" if "--thorough" in sys.argv else "quick"
    rows = []
    for name, rel, old, new, props in M:
        if args and not any(a in name for a in args):
            continue
        root = tempfile.mkdtemp(prefix="mut_", dir="/tmp")
        try:
            shutil.copytree("/repo/tradingenv", os.path.join(root, "tradingenv"))
            apply(root, rel, old, new)
            if name in EXTRA:
                apply(root, *EXTRA[name])
            res = {}
            for p in props:
                env = dict(os.environ, VERIF_REPO=root)
                r = subprocess.run([os.path.join(HERE, "check"), p, "--tier", tier, "--no-evidence"], env=env,
                                   capture_output=True, text=True)
                res[p] = r.returncode
            st = ""
            if suite:
                shutil.copytree("/repo/tests", os.path.join(root, "tests"))
                for f in ("setup.py", "setup.cfg", "pyproject.toml"):
                    if os.path.exists("/repo/" + f):
                        shutil.copy("/repo/" + f, root)
                r = subprocess.run(["/venv/bin/python", "-m", "pytest", "-q", "-p", "no:cacheprovider", "-x",
                                    "--deselect", "tests/examples", "tests"], cwd=root, capture_output=True, text=True,
                                   env=dict(os.environ, PYTHONPATH=root))
                tail = r.stdout.strip().splitlines()[-1] if r.stdout.strip() else "?"
                st = " suite: " + tail
            caught = [p for p, rc in res.items() if rc == 1]
            print("%-28s %s%s %s" % (name, "CAUGHT by " + ",".join(caught) if caught else "MISSED", st,
                                     {p: rc for p, rc in res.items() if rc != 1} or ""))
            sys.stdout.flush()
            rows.append((name, caught))
        finally:
            shutil.rmtree(root, ignore_errors=True)
    missed = [n for n, c in rows if not c]
    print("mutants: %d, caught: %d, missed: %s" % (len(rows), len(rows) - len(missed), missed))


if __name__ == "__main__":
    main()
