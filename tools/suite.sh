#!/bin/sh
# Development aid: run the repository's pinned suite on a tree (default /repo) and
# print the failures; the 5 offline yfinance examples are the pinned baseline failures.
T=${1:-/repo}
cd "$T" && /venv/bin/python -m pytest -q -p no:cacheprovider --timeout=900 --continue-on-collection-errors 2>&1 | grep -E "^(FAILED|ERROR)|passed|failed" | tail -20
