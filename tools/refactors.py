#!/usr/bin/env python3
"""Development aid: behaviour-preserving refactors of /repo/tradingenv that must NOT raise an
alarm (every listed check must exit 0 on the refactored scratch copy)."""
import os
import shutil
import subprocess
import sys
import tempfile

sys.path.insert(0, os.path.dirname(os.path.abspath(__file__)))
from mutants import apply, HERE  # noqa: E402

R = [
    ("latency_as_timedelta", "transmitter.py", "                if sec_since_timestep <= latency:", "                if (event.time - timestep_previous) <= timedelta(seconds=latency):", ["C04", "C08", "C02"]),
    ("not_quantity", "broker/broker.py", "            if quantity == 0:\n                value = 0.0", "            if not quantity:\n                value = 0.0", ["C01", "C05", "C13"]),
    ("margin_reordered", "broker/broker.py", "            trade.acq_price\n            * target_quantity\n            * trade.contract.multiplier\n            * trade.contract.margin_requirement", "            trade.contract.margin_requirement\n            * trade.contract.multiplier\n            * target_quantity\n            * trade.acq_price", ["C01", "C05"]),
    ("clip_minmax", "rewards.py", "        ret = np.clip(ret, -self.clip, +self.clip)", "        ret = min(max(ret, -self.clip), self.clip)", ["C07"]),
    ("nr_one_division", "broker/allocation.py", "nr_contracts[contract] = weight * nlv / avg_price / contract.multiplier", "nr_contracts[contract] = weight * nlv / (avg_price * contract.multiplier)", ["C03", "C12", "C01"]),
    ("queue_index", "env.py", "        action = self._queue_actions.pop()", "        action = self._queue_actions[-1]\n        del self._queue_actions[-1]", ["C08", "C17"]),
    ("acq_branches", "exchange.py", "        if quantity < 0:\n            return self.bid_price\n        elif quantity > 0:\n            return self.ask_price", "        if quantity > 0:\n            return self.ask_price\n        elif quantity < 0:\n            return self.bid_price", ["C14", "C03"]),
    ("threshold_operands", "broker/rebalancing.py", "            if abs(weights[contract]) < self.margin and contract in self.allocation:", "            if contract in self.allocation and abs(weights[contract]) < self.margin:", ["C12", "C13"]),
    ("partition_get", "transmitter.py", "            events_latent = self._partition_latent[self._current_time]\n            events_nonlatent = self._partition_nonlatent[self._current_time]", "            events_latent = self._partition_latent.get(self._current_time, [])\n            events_nonlatent = self._partition_nonlatent.get(self._current_time, [])", ["C04", "C10"]),
    ("interest_expm1_form", "broker/broker.py", "        rate_period = (1 + cagr) ** years - 1\n        accrued_interest = amount * rate_period", "        growth = (1 + cagr) ** years\n        accrued_interest = amount * growth - amount", ["C06"]),
    ("nlv_loop", "broker/broker.py", "        nlv = sum(holdings_values.values())", "        nlv = 0.0\n        for value in holdings_values.values():\n            nlv += value", ["C01", "C09"]),
    ("lead_idx_loop", "contracts.py", "        idx = bisect_right(self._last_trading_dates, now)\n", "        idx = 0\n        while idx < len(self._last_trading_dates) and self._last_trading_dates[idx] <= now:\n            idx += 1\n", ["C11", "C14"]),
    ("vx_calendar", "contracts.py", "        expiration = next_month_third_friday - timedelta(days=30)\n        return expiration", "        return next_month_third_friday - timedelta(days=23) - timedelta(days=7)", ["C19"]),
]


def main():
    args = [a for a in sys.argv[1:] if not a.startswith("--")]
    bad = []
    for name, rel, old, new, props in R:
        if args and not any(a in name for a in args):
            continue
        root = tempfile.mkdtemp(prefix="ref_", dir="/tmp")
        try:
            shutil.copytree("/repo/tradingenv", os.path.join(root, "tradingenv"))
            apply(root, rel, old, new)
            res = {}
            for p in props:
                r = subprocess.run([os.path.join(HERE, "check"), p, "--tier", "quick", "--no-evidence"],
                                   env=dict(os.environ, VERIF_REPO=root), capture_output=True, text=True)
                res[p] = r.returncode
                if r.returncode != 0:
                    tail = [l for l in r.stdout.splitlines() if l.startswith("  !") or l.startswith("   obligation")][:2]
                    print("   ", p, tail)
            ok = all(v == 0 for v in res.values())
            print("%-26s %s %s" % (name, "quiet" if ok else "ALARM", res))
            sys.stdout.flush()
            if not ok:
                bad.append(name)
        finally:
            shutil.rmtree(root, ignore_errors=True)
    print("refactors with an alarm:", bad)


if __name__ == "__main__":
    main()
