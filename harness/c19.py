"""C19 — futures calendars: expiry rules, cut-off before expiry, ordered chains (family K).

The real ``Future.__init__`` / ``_get_expiry_date`` / ``_get_last_trading_date`` of every
built-in class execute with a symbolic year (1970..2099) and an enumerated month, through
stand-ins for ``datetime`` / ``calendar`` / ``pd.date_range`` / ``BDay`` in
tradingenv.contracts (symx.calendar_theory).  Chain construction (pandas date_range +
sort) is exercised concretely over representative spans — that part is enumeration and
is labelled so."""
from __future__ import annotations

from datetime import datetime, timedelta

import z3

from symx import core, stubs
from symx.core import s_and, s_or, s_implies, SymBool
from symx.intproxy import SymInt, sym_int_var
from symx import calendar_theory as cal
import tradingenv.contracts as _ct
from tradingenv.contracts import ES, NK, VX, ZQ, ZT, ZF, ZN, ZB, FutureChain, Future
from tradingenv.events import EventContractDiscontinued

PROPERTY = "C19"
CLASSES = {"ES": ES, "NK": NK, "VX": VX, "ZQ": ZQ, "ZT": ZT, "ZF": ZF, "ZN": ZN, "ZB": ZB}
MONTH_CODES = {1: "F", 2: "G", 3: "H", 4: "J", 5: "K", 6: "M", 7: "N", 8: "Q", 9: "U", 10: "V", 11: "X", 12: "Z"}
STEP = {"ES": 3, "NK": 3, "VX": 1, "ZQ": 3, "ZT": 3, "ZF": 3, "ZN": 3, "ZB": 3}


class D:
    """Uniform view of a date coming from either mode (real datetime / SymDate)."""

    def __init__(self, x):
        self.x = x
        if isinstance(x, cal.SymDate):
            self.y, self.m, self.d = x.y, x.m, x.d
            self.n = x.n
            self.wd = x.weekday_term()
        else:
            x = x.to_pydatetime() if hasattr(x, "to_pydatetime") else x
            self.y, self.m, self.d = x.year, x.month, x.day
            self.n = (datetime(x.year, x.month, x.day) - datetime(1970, 1, 1)).days
            self.wd = x.weekday()
            self.midnight = (x.hour, x.minute, x.second, x.microsecond) == (0, 0, 0, 0)

    def plus(self, k):
        if isinstance(self.x, cal.SymDate):
            return D(self.x.add_days(k))
        return D(self.x + timedelta(days=k))


def _install():
    for k, v in cal.STAND_INS.items():
        stubs.install(_ct, k, v)


def _uninstall():
    for k in cal.STAND_INS:
        stubs.uninstall(_ct, k)


def _symbol_ok(c, con, name, m, y):
    sym = con.symbol
    want_prefix = name + MONTH_CODES[m]
    if isinstance(y, SymInt):
        ok = sym.startswith(want_prefix + "<yy") and sym.endswith(">")
        c.prove("C19:symbol=class-code+month-code+yy", ok, info=sym)
        if ok:
            idx = int(sym[len(want_prefix) + 3:-1])
            yy = cal.YY[idx]
            c.prove("C19:symbol-year-is-the-contract-year", yy == y)
    else:
        c.prove("C19:symbol=class-code+month-code+yy", sym[:-2] == want_prefix and len(sym) == len(want_prefix) + 2,
                info={"symbol": sym, "y": y, "m": m})
        c.prove("C19:symbol-year-is-the-contract-year", sym[-2:] == "%02d" % (y % 100), info={"symbol": sym, "y": y})


def _rules(c, name, con, y, m):
    E, LT = D(con.expiry), D(con.last_trading_date)
    c.record("expiry", [E.y, E.m, E.d])
    c.record("last_trading", [LT.y, LT.m, LT.d])
    in_month = s_and(E.y == y, E.m == m)
    if name == "ES":
        c.prove("C19:ES-expires-third-friday", s_and(in_month, E.wd == 4, 15 <= E.d, E.d <= 21),
                info={"expiry": [E.y, E.m, E.d]})
    elif name == "NK":
        c.prove("C19:NK-expires-second-friday", s_and(in_month, E.wd == 4, 8 <= E.d, E.d <= 14),
                info={"expiry": [E.y, E.m, E.d]})
    elif name == "VX":
        F = E.plus(30)
        fm = m % 12 + 1
        fy = y + 1 if m == 12 else y
        c.prove("C19:VX-expires-wednesday-30-days-before-third-friday-of-following-month",
                s_and(E.wd == 2, F.wd == 4, F.m == fm, F.y == fy, 15 <= F.d, F.d <= 21),
                info={"expiry": [E.y, E.m, E.d], "plus30": [F.y, F.m, F.d]})
        c.prove("C19:VX-expiry-lies-in-the-contract-month", in_month)
    else:
        dim = cal.days_in_month(y, m)
        later_weekend = True
        for k in (1, 2, 3):
            if E.d + k <= dim:
                later_weekend = s_and(later_weekend, E.plus(k).wd >= 5)
        c.prove("C19:treasury-expires-last-weekday-of-month",
                s_and(in_month, E.wd <= 4, later_weekend, dim - E.d <= 2),
                info={"expiry": [E.y, E.m, E.d]})
    c.prove("C19:last-trading-date-strictly-before-expiry", LT.n < E.n,
            info={"expiry": [E.y, E.m, E.d], "last": [LT.y, LT.m, LT.d]})
    _symbol_ok(c, con, name, m, y)
    evs = con.make_events()
    c.prove("C19:exactly-one-discontinuation-event-stamped-at-expiry",
            len(evs) == 1 and isinstance(evs[0], EventContractDiscontinued) and evs[0].time is con.expiry
            and evs[0].contract is con)
    return E, LT


def _contract(c, cfg):
    name, m = cfg["cls"], cfg["month"]
    cls = CLASSES[name]
    y = sym_int_var(c, "year", 1970, 2099)
    sym = isinstance(y, SymInt)
    del cal.YY[:]
    if sym:
        _install()
    try:
        con = cls(y, m)
        E1, LT1 = _rules(c, name, con, y, m)
        # the next listed month: expiry and last-trading dates strictly increase
        m2 = m + STEP[name]
        y2 = y
        if m2 > 12:
            m2, y2 = m2 - 12, y + 1
        if not (isinstance(y2, int) and y2 > 2099):
            con2 = cls(y2, m2)
            E2, LT2 = D(con2.expiry), D(con2.last_trading_date)
            c.prove("C19:expiry-strictly-increases-along-listed-months", E1.n < E2.n)
            c.prove("C19:last-trading-strictly-increases-along-listed-months", LT1.n < LT2.n)
            c.prove("C19:real-ordering-agrees", bool(con < con2))
        c.reached("contract")
    finally:
        if sym:
            _uninstall()


def _yy(c, cfg):
    """Two contracts of one class with the same symbol within a century are the same
    (month code injective, two-digit year injective within 100 years)."""
    y1 = sym_int_var(c, "y1", 1970, 2099)
    y2 = sym_int_var(c, "y2", 1970, 2099)
    c.assume(s_and(y1 - y2 < 100, y2 - y1 < 100))
    c.assume((y1 % 100) == (y2 % 100))
    c.prove("C19:two-digit-year-unique-within-a-century", y1 == y2)
    c.prove("C19:month-codes-injective", len(set(Future.month_codes.values())) == 12
            and dict(Future.month_codes) == MONTH_CODES)
    c.reached("yy")


def _chain(c, cfg):
    """Enumeration (concrete): chain construction through pandas.date_range + sorting."""
    name = cfg["cls"]
    cls = CLASSES[name]
    start, end = cfg["span"]
    ch = FutureChain(cls, start, end)
    cons = ch.contracts
    c.prove("C19:chain-lists-at-least-one-contract", len(cons) >= 1, info={"span": cfg["span"]})
    exp = [x.expiry for x in cons]
    ltd = [x.last_trading_date for x in cons]
    c.prove("C19:chain-strictly-increasing-expiry", all(a < b for a, b in zip(exp, exp[1:])))
    c.prove("C19:chain-strictly-increasing-last-trading", all(a < b for a, b in zip(ltd, ltd[1:])))
    c.prove("C19:chain-last-trading-dates-match", list(ch._last_trading_dates) == ltd)
    syms = [x.symbol for x in cons]
    c.prove("C19:chain-symbols-unique", len(set(syms)) == len(syms))
    evs = ch.make_events()
    c.prove("C19:chain-one-discontinuation-per-contract-at-expiry",
            len(evs) == len(cons) and all(e.time == x.expiry and e.contract is x for e, x in zip(evs, cons)))
    step = STEP[name]
    months = [(x.expiry.year * 12 + x.expiry.month - 1) for x in cons]
    c.prove("C19:chain-lists-consecutive-listed-months", all(b - a == step for a, b in zip(months, months[1:])))
    c.record("n", len(cons))
    c.reached("chain")


def harness(c, cfg):
    {"contract": _contract, "yy": _yy, "chain": _chain}[cfg["part"]](c, cfg)


def precheck(tier):
    n = cal.selfcheck()
    return {"calendar_theory_days_compared_with_datetime_calendar_pandas": n, "range": "1970-01-01..2099-12-31"}


def configs(tier):
    out = []

    def add(**kw):
        kw["id"] = "C19/" + ",".join("%s=%s" % kv for kv in sorted(kw.items()))
        out.append(kw)

    for name in CLASSES:
        for m in range(1, 13):
            add(part="contract", cls=name, month=m)
    add(part="yy")
    spans = [("2019-01", "2021-06"), ("1999-11", "2001-02")]
    if tier == "thorough":
        spans += [("1970-01", "1975-12"), ("2090-01", "2099-06"), ("2023-12-31", "2024-12-31"), ("2004-03", "2012-01")]
    for name in CLASSES:
        for sp in spans:
            add(part="chain", cls=name, span=list(sp))
    return out


ANCHORS = ["contracts.py:Future.__init__", "contracts.py:ES._get_expiry_date", "contracts.py:NK._get_expiry_date",
           "contracts.py:VX._get_expiry_date", "contracts.py:VX._get_last_trading_date",
           "contracts.py:_Treasury._get_expiry_date", "contracts.py:_Treasury._get_last_trading_date",
           "contracts.py:Future.make_events", "contracts.py:FutureChain.__init__", "contracts.py:FutureChain.make_events"]
EXPECT_REACH = ["contract", "yy", "chain"]
ASSUMPTIONS = ["expiry year symbolic in [1970, 2099] (the whole domain, one SMT obligation per rule and path); the month is "
               "enumerated 1..12 per class",
               "trusted calendar theory (days_from_civil, weekday, month length, day arithmetic, business-day stepping, "
               "date_range(freq='B')) compared with datetime / calendar / pandas on every day of 1970-2099 at start-up",
               "the next listed month is +3 for quarterly classes and +1 for VX",
               "chain construction through pandas.date_range is exercised concretely on a few spans (enumeration, not "
               "solver-decided)"]
BOUNDS = {"quick": "8 classes x 12 months x symbolic year; 2 chain spans per class",
          "thorough": "plus 4 more chain spans per class incl. the edges of the year range"}
OUTSIDE = ["years outside 1970-2099", "exchange holidays (not modelled by the code either)", "month offsets of chains (C11)"]
STUBS = ["datetime / calendar / pd / BDay shadowed in tradingenv.contracts by the calendar theory's stand-ins while a "
         "contract with a symbolic year is constructed"]
DEADLINE_S = {"quick": 900, "thorough": 1800}
