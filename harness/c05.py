"""C05 — margin invariant and NLV decomposition (family L, DESIGN §4 C05)."""
from harness import l_ops, l_seq
from harness.ledger import ASSUMPTIONS as _A

PROPERTY = "C05"


def harness(c, cfg):
    if cfg.get("op") == "seq":
        return l_seq.harness(c, cfg)
    return l_ops.harness(c, cfg)


def configs(tier):
    return l_ops.configs_for("C05", tier) + l_seq.configs_for("C05", tier)


ANCHORS = ["broker.py:Broker.transact", "broker.py:Broker.marking_to_market",
           "broker.py:Broker.holdings_values", "broker.py:Broker.net_liquidation_value",
           "broker.py:Broker.holdings_weights", "exchange.py:LimitOrderBook.liq_price"]
EXPECT_REACH = ["trade", "quote", "mtm", "sequence", "weights"]
ASSUMPTIONS = _A
BOUNDS = {
    "quick": "one traded contract (user-defined spot-like or margined spec with symbolic multiplier "
             "and margin requirement; built-in ETF/ES/ZN) + cash; one operation (trade of any sign and "
             "size / quote update / mark-to-market + valuation queries) from every INV pre-state shape "
             "(never traded, traded and flat, long, short)",
    "thorough": "as quick plus a bystander contract of either kind in every shape (two non-cash "
                "contracts + cash)",
}
OUTSIDE = ["IEEE rounding", "the 1e-7 snap band", "from-reset sequences longer than 3-4 operations (they cross-check the "
           "inductive step and the INV shapes, they are not the induction)", "more than two non-cash contracts (independence by "
           "the per-contract loop structure, not machine-checked)",
           "the induction over the number of operations is an argument on paper; each step is checked"]
STUBS = []
DEADLINE_S = {"quick": 600, "thorough": 3600}
