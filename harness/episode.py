"""Family E (DESIGN §3.2): a whole episode of the real Transmitter / TradingEnv over a
symbolic timeline.

Grid points T_0 < ... < T_{N-1}, a latency and M freely placed extra events are symbolic
(integer microseconds); bar quotes sit exactly on the grid.  Prices and actions are
concrete and pairwise distinct unless a harness makes them symbolic, so that "which quote
priced this trade" and "which action was executed" can be read off while the timeline
stays linear integer arithmetic.  Works in symbolic and concrete mode.
"""
from __future__ import annotations

from datetime import datetime, timedelta

import numpy as np

from symx import core
from symx.core import SymReal, SymBool, s_and, s_or, s_not, s_implies
from symx.timeproxy import (SymTime, sym_time, sym_seconds, sym_latency, const_time, LO_DEFAULT, HI_DEFAULT,
                            dt_to_us, US)

from tradingenv.contracts import ETF, Cash, AbstractContract
from tradingenv.env import TradingEnv
from tradingenv.events import (IEvent, EventNBBO, EventReset, EventStep, EventDone, EventNewDate,
                               EventContractDiscontinued)
from tradingenv.spaces import BoxPortfolio, DiscretePortfolio
from tradingenv.state import IState
from tradingenv.features import Feature
from tradingenv.transmitter import Transmitter
from tradingenv.broker.fees import BrokerFees
from tradingenv.broker.broker import EndOfEpisodeError

ASSUMPTIONS = [
    "timestamps are integer microseconds (the exact value domain of datetime) in [2000-01-01, 2100-01-01)",
    "grid points strictly increasing (unsorted / duplicated grid input are separate concrete-permutation configs)",
    "latency is a whole number of microseconds with 0 <= latency < minimum grid gap (w.l.o.g.: it is only ever "
    "compared with differences of datetimes, which are whole microseconds)",
    "bar-shaped data: one quote per traded contract stamped exactly on every grid point; the M extra events "
    "have unconstrained timestamps",
    "prices and actions are concrete and pairwise distinct unless stated otherwise",
]


class Ping(IEvent):
    """A custom (non-market) event with a payload."""

    def __init__(self, time, payload):
        self.time = time
        self.payload = payload


class Recorder(IState):
    """An observer subscribed to every event class.  For each callback it logs the event
    kind and identity, its stamp, env.now() at that moment and the number of executed
    rebalances so far (to tell 'before the pending execution' from 'after')."""

    def __init__(self, log=None, envbox=None):
        self.log = log if log is not None else []
        self.envbox = envbox if envbox is not None else []
        super().__init__()

    def _rec(self, kind, event):
        env = self.envbox[0] if self.envbox else None
        now = env.now() if env is not None else None
        nreb = len(env.broker.track_record) if env is not None and env.broker is not None else None
        self.log.append({"kind": kind, "event": event, "time": event.time, "now": now, "nreb": nreb,
                         "tag": getattr(event, "_tag", None)})

    def process_EventNBBO(self, event):
        self._rec("NBBO", event)

    def process_Ping(self, event):
        self._rec("Ping", event)

    def process_EventReset(self, event):
        self._rec("Reset", event)

    def process_EventStep(self, event):
        self._rec("Step", event)

    def process_EventDone(self, event):
        self._rec("Done", event)

    def process_EventNewDate(self, event):
        self._rec("NewDate", event)

    def process_EventContractDiscontinued(self, event):
        self._rec("Disc", event)


def t_eq(a, b):
    """Equality of two (possibly symbolic) timestamps as a SymBool / bool."""
    return a == b


def t_le(a, b):
    return a <= b


def t_lt(a, b):
    return a < b


class Episode:
    """Everything a family-E harness needs."""

    def __init__(self, c, cfg):
        self.c = c
        self.cfg = cfg
        N = cfg.get("N", 3)
        M = cfg.get("M", 1)
        self.N, self.M = N, M
        # ---- grid
        self.T = [sym_time(c, "T%d" % i) for i in range(N)]
        for i in range(N - 1):
            c.assume(self.T[i] < self.T[i + 1])
        # ---- latency
        lat = cfg.get("latency", "zero")
        if lat == "zero":
            self.L = 0
        elif lat == "sym":
            self.L = sym_latency(c, "L")
            for i in range(N - 1):
                c.assume(self.L < (self.T[i + 1] - self.T[i]).total_seconds())
        else:
            self.L = float(lat)
            for i in range(N - 1):
                c.assume(self.L < (self.T[i + 1] - self.T[i]).total_seconds())
        # ---- contracts
        self.X = ETF("X")
        self.contracts = [self.X]
        if cfg.get("two_contracts"):
            self.Y = ETF("Y")
            self.contracts.append(self.Y)
        # ---- events
        self.bars = []          # bars[i][k]
        self.market = []        # every market event in insertion order (dicts)
        sym_prices = cfg.get("sym_prices", False)
        for i in range(N):
            row = []
            for k, con in enumerate(self.contracts):
                if sym_prices:
                    bid = c.real("bid_%d_%d" % (i, k), 1e-3, 1e6)
                    ask = c.real("ask_%d_%d" % (i, k), 1e-3, 1e6)
                    c.assume(bid <= ask)
                else:
                    mid = 100.0 + 10 * i + 50 * k
                    spread = cfg.get("spread", 0.0)
                    bid, ask = mid - spread / 2, mid + spread / 2
                ev = EventNBBO(self.T[i], con, bid, ask)
                ev._tag = "bar%d_%d" % (i, k)
                row.append(ev)
            self.bars.append(row)
        self.free = []
        kinds = cfg.get("free_kinds") or ["quote"] * M
        for j in range(M):
            t = sym_time(c, "E%d" % j)
            if kinds[j] == "quote":
                if sym_prices:
                    bid = c.real("fbid_%d" % j, 1e-3, 1e6)
                    ask = c.real("fask_%d" % j, 1e-3, 1e6)
                    c.assume(bid <= ask)
                else:
                    mid = 200.0 + 7 * j
                    spread = cfg.get("spread", 0.0)
                    bid, ask = mid - spread / 2, mid + spread / 2
                ev = EventNBBO(t, self.X, bid, ask)
            else:
                payload = c.real("pay_%d" % j, -1e6, 1e6) if cfg.get("sym_payload") else 1000.0 + j
                ev = Ping(t, payload)
            ev._tag = "free%d" % j
            self.free.append(ev)
        order = cfg.get("insertion", "bars-first")
        bars_flat = [ev for row in self.bars for ev in row]
        if order == "bars-first":
            self.events = bars_flat + self.free
        elif order == "free-first":
            self.events = self.free + bars_flat
        else:   # interleaved, reversed bars
            self.events = list(reversed(bars_flat)) + self.free
        # ---- folds / transmitter
        folds = None
        self.fold_name = "training-set"
        fold = cfg.get("fold")
        self.S = self.Eend = None
        if fold == "sym":
            self.S = sym_time(c, "S", lo=datetime(1999, 1, 1), hi=datetime(2101, 1, 1))
            self.Eend = sym_time(c, "Eend", lo=datetime(1999, 1, 1), hi=datetime(2101, 1, 1))
            c.assume(self.S <= self.Eend)
            folds = {"training-set": [self.S, self.Eend]}
        elif fold == "two":
            self.S = sym_time(c, "S", lo=datetime(1999, 1, 1), hi=datetime(2101, 1, 1))
            self.Eend = sym_time(c, "Eend", lo=datetime(1999, 1, 1), hi=datetime(2101, 1, 1))
            c.assume(self.S <= self.Eend)
            S2 = sym_time(c, "S2", lo=datetime(1999, 1, 1), hi=datetime(2101, 1, 1))
            E2 = sym_time(c, "E2", lo=datetime(1999, 1, 1), hi=datetime(2101, 1, 1))
            c.assume(S2 <= E2)
            c.assume(self.S <= S2)      # PartitionTimeRanges sorts folds by (start, end)
            folds = {"training-set": [S2, E2], "test-set": [self.S, self.Eend]}
            self.fold_name = "test-set"
        self.markov = bool(cfg.get("markov", False))
        self.warmup = None
        if cfg.get("warmup") == "sym":
            self.warmup = sym_seconds(c, "W", lo_us=1, hi_us=400 * 86400 * US)
        grid_in = list(self.T)
        perm = cfg.get("grid_perm")
        if perm:
            grid_in = [self.T[i] for i in perm]         # unsorted and/or duplicated input
        self.transmitter = Transmitter(timesteps=grid_in, folds=folds, markov_reset=self.markov,
                                       warmup=self.warmup)
        self.transmitter.add_events(self.events)
        # ---- environment
        self.log = []
        self.envbox = []
        self.recorder = Recorder(self.log, self.envbox)
        space = cfg.get("space", "box")
        self.space_contracts = ([Cash()] if cfg.get("cash_in_space") else []) + list(self.contracts)
        if space == "box":
            self.space = BoxPortfolio(self.space_contracts, low=cfg.get("low", -1.0), high=cfg.get("high", 2.0),
                                      as_weights=cfg.get("as_weights", True))
        else:
            n = len(self.space_contracts)
            self.allocs = [[0.0] * n, [0.5] * n, [-0.5] * n, [1.0] + [0.0] * (n - 1)]
            self.space = DiscretePortfolio(self.space_contracts, self.allocs)
        kw = {}
        if cfg.get("reward"):
            kw["reward"] = cfg["reward"]
        if cfg.get("fees"):
            kw["broker_fees"] = BrokerFees(proportional=0.001, fixed=0.01)
        self.env = TradingEnv(action_space=self.space, state=self.recorder, transmitter=self.transmitter,
                              latency=self.L, steps_delay=cfg.get("delay", 0),
                              episode_length=cfg.get("episode_length"), **kw)
        self.envbox.append(self.env)

    # ------------------------------------------------------------------ helpers
    def action(self, k):
        """k-th concrete, distinct in-space action."""
        n = len(self.space_contracts)
        if isinstance(self.space, BoxPortfolio):
            return np.array([0.1 * (k + 1) + 0.01 * j for j in range(n)])
        return (k % 3) + 1

    def grid_index(self, t):
        """Index of the first grid point >= t (forks), or None if t is after the grid."""
        for i in range(self.N):
            if t <= self.T[i]:
                return i
        return None

    def market_events(self):
        return [ev for row in self.bars for ev in row] + self.free
