"""Family E (DESIGN §3.2): a whole episode of the real Transmitter / TradingEnv over a
symbolic timeline.

Grid points T_0 < ... < T_{N-1}, a latency and M freely placed extra events are symbolic
(integer microseconds); bar quotes sit exactly on the grid.  Prices and actions are
concrete and pairwise distinct unless a harness makes them symbolic, so that "which quote
priced this trade" and "which action was executed" can be read off while the timeline
stays linear integer arithmetic.  Works in symbolic and concrete mode.
"""
from __future__ import annotations

from datetime import datetime, timedelta

import numpy as np

from symx import core
from symx.core import SymReal, SymBool, s_and, s_or, s_not, s_implies
from symx.timeproxy import (SymTime, sym_time, sym_seconds, sym_latency, const_time, LO_DEFAULT, HI_DEFAULT,
                            dt_to_us, US)

from tradingenv.contracts import ETF, Cash, AbstractContract
from tradingenv.env import TradingEnv
from tradingenv.events import (IEvent, EventNBBO, EventReset, EventStep, EventDone, EventNewDate,
                               EventContractDiscontinued)
from tradingenv.spaces import BoxPortfolio, DiscretePortfolio
from tradingenv.state import IState
from tradingenv.features import Feature
from tradingenv.transmitter import Transmitter
from tradingenv.broker.fees import BrokerFees
from tradingenv.broker.broker import EndOfEpisodeError

ASSUMPTIONS = [
    "timestamps are integer microseconds (the exact value domain of datetime) in [2000-01-01, 2100-01-01)",
    "grid points strictly increasing (unsorted / duplicated grid input are separate concrete-permutation configs)",
    "latency is a whole number of microseconds with 0 <= latency < minimum grid gap (w.l.o.g.: it is only ever "
    "compared with differences of datetimes, which are whole microseconds)",
    "bar-shaped data: one quote per traded contract stamped exactly on every grid point; the M extra events "
    "have unconstrained timestamps",
    "prices and actions are concrete and pairwise distinct unless stated otherwise",
]


class Ping(IEvent):
    """A custom (non-market) event with a payload."""

    def __init__(self, time, payload):
        self.time = time
        self.payload = payload


class Recorder(IState):
    """An observer subscribed to every event class.  For each callback it logs the event
    kind and identity, its stamp, env.now() at that moment and the number of executed
    rebalances so far (to tell 'before the pending execution' from 'after')."""

    def __init__(self, log=None, envbox=None):
        self.log = log if log is not None else []
        self.envbox = envbox if envbox is not None else []
        super().__init__()

    def _rec(self, kind, event):
        env = self.envbox[0] if self.envbox else None
        now = env.now() if env is not None else None
        nreb = len(env.broker.track_record) if env is not None and env.broker is not None else None
        self.log.append({"kind": kind, "event": event, "time": event.time, "now": now, "nreb": nreb,
                         "tag": getattr(event, "_tag", None)})

    def process_EventNBBO(self, event):
        self._rec("NBBO", event)

    def process_Ping(self, event):
        self._rec("Ping", event)

    def process_EventReset(self, event):
        self._rec("Reset", event)

    def process_EventStep(self, event):
        self._rec("Step", event)

    def process_EventDone(self, event):
        self._rec("Done", event)

    def process_EventNewDate(self, event):
        self._rec("NewDate", event)

    def process_EventContractDiscontinued(self, event):
        self._rec("Disc", event)


class PriceFeature(Feature):
    """A feature with history: the last mid price of a contract (parse is implemented, so
    every observation is saved into Feature.history keyed by time)."""

    def __init__(self, contract=None, log=None, envbox=None):
        super().__init__(name="PriceFeature")
        self.contract = contract
        self.log = log if log is not None else []
        self.envbox = envbox if envbox is not None else []
        self.last = 0.0

    def process_EventNBBO(self, event):
        if event.contract == self.contract:
            self.last = (event.bid_price + event.ask_price) / 2
        env = self.envbox[0] if self.envbox else None
        self.log.append({"kind": "NBBO", "event": event, "time": event.time, "now": env.now() if env else None,
                         "nreb": len(env.broker.track_record) if env and env.broker else None,
                         "tag": getattr(event, "_tag", None)})

    def parse(self):
        return self.last


class PingOnly(Feature):
    """A second observer, subscribed to the custom event only."""

    def __init__(self, log=None):
        super().__init__(name="PingOnly", save=False)
        self.log = log if log is not None else []

    def process_Ping(self, event):
        self.log.append(event)


class NBBOOnly(Feature):
    """A third observer, subscribed to quotes only."""

    def __init__(self, log=None):
        super().__init__(name="NBBOOnly", save=False)
        self.log = log if log is not None else []

    def process_EventNBBO(self, event):
        self.log.append(event)


class PassiveFeature(Feature):
    """A feature that observes no event: it reads the broker when parsed and keeps a running
    peak (state set in __init__) plus the usual history."""

    def __init__(self):
        super().__init__(name="PassiveFeature")
        self.peak = 0.0

    def parse(self):
        nlv = self.broker.net_liquidation_value(False) if self.broker is not None else 0.0
        if nlv > self.peak:
            self.peak = nlv
        return nlv - self.peak


class PriceState(IState):
    """A user-defined state with parse() implemented: IState saves a deep copy of every parsed
    observation into ``history`` keyed by the time of the latest update."""

    def __init__(self, contract=None, log=None, envbox=None):
        self.contract = contract
        self.log = log if log is not None else []
        self.envbox = envbox if envbox is not None else []
        self.last = 0.0
        super().__init__()

    def process_EventNBBO(self, event):
        if event.contract == self.contract:
            self.last = (event.bid_price + event.ask_price) / 2
        env = self.envbox[0] if self.envbox else None
        self.log.append({"kind": "NBBO", "event": event, "time": event.time, "now": env.now() if env else None,
                         "nreb": len(env.broker.track_record) if env and env.broker else None,
                         "tag": getattr(event, "_tag", None)})

    def parse(self):
        return self.last


class _RecorderWithFeatures(Recorder):
    """The recorder plus further observers registered through IState.features."""

    def __init__(self, log=None, envbox=None, features=None):
        self.log = log if log is not None else []
        self.envbox = envbox if envbox is not None else []
        IState.__init__(self, features=features, save=False)


def t_eq(a, b):
    """Equality of two (possibly symbolic) timestamps as a SymBool / bool."""
    return a == b


def t_le(a, b):
    return a <= b


def t_lt(a, b):
    return a < b


class Inputs:
    """The symbolic inputs of an episode, created on first use and memoised by name so that a
    second, identically configured environment can be built from the *same* inputs."""

    def __init__(self, c, prefix=""):
        self.c = c
        self.prefix = prefix
        self.memo = {}

    def _get(self, name, make):
        if name not in self.memo:
            self.memo[name] = make(self.prefix + name)
        return self.memo[name]

    def time(self, name, lo=LO_DEFAULT, hi=HI_DEFAULT):
        return self._get(name, lambda n: sym_time(self.c, n, lo=lo, hi=hi))

    def real(self, name, lo, hi):
        return self._get(name, lambda n: self.c.real(n, lo, hi))

    def latency(self, name):
        return self._get(name, lambda n: sym_latency(self.c, n))

    def seconds(self, name, lo_us, hi_us):
        return self._get(name, lambda n: sym_seconds(self.c, n, lo_us=lo_us, hi_us=hi_us))


class Episode:
    """Everything a family-E harness needs."""

    def __init__(self, c, cfg, prefix="", inputs=None):
        self.c = c
        self.cfg = cfg
        inp = self.inp = inputs if inputs is not None else Inputs(c, prefix)
        N = cfg.get("N", 3)
        M = cfg.get("M", 1)
        self.N, self.M = N, M
        # ---- grid
        t_lo = cfg.get("t_lo") and datetime(*cfg["t_lo"]) or LO_DEFAULT
        t_hi = cfg.get("t_hi") and datetime(*cfg["t_hi"]) or HI_DEFAULT
        if cfg.get("concrete_grid"):
            # a concrete daily grid (used where elapsed time enters a nonlinear formula: interest)
            base = datetime(2030, 1, 7, 16, 0, 0)
            self.T = [const_time(base + timedelta(days=i)) if c.mode == "sym" else base + timedelta(days=i)
                      for i in range(N)]
        else:
            self.T = [inp.time("T%d" % i, t_lo, t_hi) for i in range(N)]
            for i in range(N - 1):
                c.assume(self.T[i] < self.T[i + 1])
        # ---- latency
        lat = cfg.get("latency", "zero")
        if lat == "zero":
            self.L = 0
        elif lat == "sym":
            self.L = inp.latency("L")
            for i in range(N - 1):
                c.assume(self.L < (self.T[i + 1] - self.T[i]).total_seconds())
        else:
            self.L = float(lat)
            for i in range(N - 1):
                c.assume(self.L < (self.T[i + 1] - self.T[i]).total_seconds())
        # ---- contracts
        kind = cfg.get("contract", "etf")
        self.chain = None
        if kind == "etf":
            self.X = ETF("X")
            self.contracts = [self.X]
            if cfg.get("two_contracts"):
                self.Y = ETF("Y")
                self.contracts.append(self.Y)
            self.traded = list(self.contracts)
        elif kind == "future":
            from tradingenv.contracts import ES
            self.X = ES(2030, 6)
            self.contracts = [self.X]
            self.traded = [self.X]
        else:   # a chain of two futures; quotes exist for both underlying contracts
            from tradingenv.contracts import ES, FutureChain
            self.F1, self.F2 = ES(2030, 3), ES(2030, 6)
            self.chain = FutureChain(contracts=[self.F1, self.F2])
            self.X = self.F1
            self.contracts = [self.F1, self.F2]
            self.traded = [self.chain]
        # ---- events
        self.bars = []          # bars[i][k]
        self.market = []        # every market event in insertion order (dicts)
        sym_prices = cfg.get("sym_prices", False)
        for i in range(N):
            row = []
            for k, con in enumerate(self.contracts):
                if sym_prices:
                    bid = inp.real("bid_%d_%d" % (i, k), 1e-3, 1e6)
                    ask = inp.real("ask_%d_%d" % (i, k), 1e-3, 1e6)
                    c.assume(bid <= ask)
                else:
                    mid = 100.0 + 10 * i + 50 * k + (3.0 if inp.prefix else 0.0)     # distinct per environment
                    spread = cfg.get("spread", 0.0)
                    bid, ask = mid - spread / 2, mid + spread / 2
                ev = EventNBBO(self.T[i], con, bid, ask)
                ev._tag = "bar%d_%d" % (i, k)
                row.append(ev)
            self.bars.append(row)
        self.free = []
        kinds = cfg.get("free_kinds") or ["quote"] * M
        for j in range(M):
            t = inp.time("E%d" % j, t_lo, t_hi)
            if kinds[j] == "quote":
                if sym_prices:
                    bid = inp.real("fbid_%d" % j, 1e-3, 1e6)
                    ask = inp.real("fask_%d" % j, 1e-3, 1e6)
                    c.assume(bid <= ask)
                else:
                    mid = 200.0 + 7 * j
                    spread = cfg.get("spread", 0.0)
                    bid, ask = mid - spread / 2, mid + spread / 2
                ev = EventNBBO(t, self.X, bid, ask)
            else:
                payload = inp.real("pay_%d" % j, -1e6, 1e6) if cfg.get("sym_payload") else 1000.0 + j
                ev = Ping(t, payload)
            ev._tag = "free%d" % j
            self.free.append(ev)
        self.rate_event = None
        if cfg.get("rate") == "sym":
            from tradingenv.contracts import Rate
            self.rate = inp.real("rate", 0.0, 0.2)
            self.rate_event = EventNBBO(self.T[0], BrokerFees().interest_rate, self.rate, self.rate)
            self.rate_event._tag = "rate"
        for j in range(cfg.get("tied", 0)):
            # many custom events sharing ONE (symbolic) timestamp: ties must keep insertion order
            ev = Ping(inp.time("Etied", t_lo, t_hi), 5000.0 + j)
            ev._tag = "tied%d" % j
            self.free.append(ev)
        order = cfg.get("insertion", "bars-first")
        bars_flat = [ev for row in self.bars for ev in row]
        if order == "bars-first":
            self.events = bars_flat + self.free
        elif order == "free-first":
            self.events = self.free + bars_flat
        else:   # interleaved, reversed bars
            self.events = list(reversed(bars_flat)) + self.free
        if self.rate_event is not None:
            self.events = [self.rate_event] + self.events
        # ---- folds / transmitter
        folds = None
        self.fold_name = "training-set"
        fold = cfg.get("fold")
        self.S = self.Eend = None
        self.fold_bounds = {}
        if fold == "sym":
            self.S = inp.time("S", datetime(1999, 1, 1), datetime(2101, 1, 1))
            self.Eend = inp.time("Eend", datetime(1999, 1, 1), datetime(2101, 1, 1))
            c.assume(self.S <= self.Eend)
            folds = {"training-set": [self.S, self.Eend]}
            self.fold_bounds = {"training-set": (self.S, self.Eend)}
        elif fold == "two":
            self.S = inp.time("S", datetime(1999, 1, 1), datetime(2101, 1, 1))
            self.Eend = inp.time("Eend", datetime(1999, 1, 1), datetime(2101, 1, 1))
            c.assume(self.S <= self.Eend)
            S2 = inp.time("S2", datetime(1999, 1, 1), datetime(2101, 1, 1))
            E2 = inp.time("E2", datetime(1999, 1, 1), datetime(2101, 1, 1))
            c.assume(S2 <= E2)
            c.assume(self.S <= S2)      # PartitionTimeRanges sorts folds by (start, end)
            folds = {"training-set": [S2, E2], "test-set": [self.S, self.Eend]}
            self.fold_name = "test-set"
            self.fold_bounds = {"test-set": (self.S, self.Eend), "training-set": (S2, E2)}
        self.markov = bool(cfg.get("markov", False))
        self.warmup = None
        if cfg.get("warmup") == "sym":
            self.warmup = inp.seconds("W", 1, 400 * 86400 * US)
        grid_in = list(self.T)
        perm = cfg.get("grid_perm")
        if perm:
            grid_in = [self.T[i] for i in perm]         # unsorted and/or duplicated input
        self.transmitter = Transmitter(timesteps=grid_in, folds=folds, markov_reset=self.markov,
                                       warmup=self.warmup)
        self.transmitter.add_events(self.events)
        # ---- environment
        self.log = []
        self.envbox = []
        self.recorder = Recorder(self.log, self.envbox)
        space = cfg.get("space", "box")
        self.space_contracts = ([Cash()] if cfg.get("cash_in_space") else []) + list(self.traded)
        if cfg.get("cash_in_space") == "last":
            self.space_contracts = list(self.traded) + [Cash()]
        elif cfg.get("cash_in_space") == "middle" and len(self.traded) >= 2:
            self.space_contracts = [self.traded[0], Cash()] + list(self.traded[1:])
        if space == "box":
            self.space = BoxPortfolio(self.space_contracts, low=cfg.get("low", -1.0), high=cfg.get("high", 2.0),
                                      as_weights=cfg.get("as_weights", True), fractional=cfg.get("fractional", True),
                                      margin=cfg.get("space_margin", 0.0))
        else:
            n = len(self.space_contracts)
            self.allocs = [[0.0] * n, [0.5] * n, [-0.5] * n, [1.0] + [0.0] * (n - 1)]
            if cfg.get("as_weights", True) is False:
                self.allocs = [[0.0] * n, [3.0] * n, [-2.0] * n, [5.0] + [0.0] * (n - 1)]     # numbers of contracts
            self.space = DiscretePortfolio(self.space_contracts, self.allocs, as_weights=cfg.get("as_weights", True),
                                           fractional=cfg.get("fractional", True))
        kw = {}
        if cfg.get("reward"):
            kw["reward"] = cfg["reward"]
        if cfg.get("fees"):
            kw["broker_fees"] = BrokerFees(proportional=0.001, fixed=0.01, markup=cfg.get("markup", 0.0))
        self.ping_log, self.nbbo_log = [], []
        if cfg.get("more_observers"):
            self.recorder = _RecorderWithFeatures(self.log, self.envbox, [PingOnly(self.ping_log), NBBOOnly(self.nbbo_log)])
        if cfg.get("feature"):
            self.recorder = IState([PriceFeature(self.contracts[0], self.log, self.envbox)], save=False)
        if cfg.get("passive_feature"):
            self.recorder = IState([PassiveFeature()], save=False)
        if cfg.get("state_history"):
            self.recorder = PriceState(self.contracts[0], self.log, self.envbox)
        self.env = TradingEnv(action_space=self.space, state=self.recorder, transmitter=self.transmitter,
                              latency=self.L, steps_delay=cfg.get("delay", 0),
                              episode_length=cfg.get("episode_length"), **kw)
        self.envbox.append(self.env)

    def use_fold(self, name):
        """Select which fold the next episode runs on (two-fold configurations)."""
        self.fold_name = name
        self.S, self.Eend = self.fold_bounds[name]

    def clone(self):
        """A freshly built, identically configured environment over the same inputs."""
        return Episode(self.c, self.cfg, inputs=self.inp)

    # ------------------------------------------------------------------ helpers
    def action(self, k):
        """k-th concrete, distinct in-space action."""
        n = len(self.space_contracts)
        if isinstance(self.space, BoxPortfolio):
            return np.array([0.1 * (k + 1) + 0.01 * j for j in range(n)])
        return (k % 3) + 1

    def grid_index(self, t):
        """Index of the first grid point >= t (forks), or None if t is after the grid."""
        for i in range(self.N):
            if t <= self.T[i]:
                return i
        return None

    def market_events(self):
        return [ev for row in self.bars for ev in row] + self.free
