"""C15 — episodes stay inside their fold; episode length and walk-forward are exact."""
from __future__ import annotations

from datetime import datetime

import numpy as np

from symx import core, stubs
from symx.core import s_and, s_or, s_implies, SymBool
from symx.intproxy import (SymInt, SymProgression, sym_int_var, FakeTimesteps, sym_len, NumpyShim)
from harness.episode import Episode, ASSUMPTIONS as _A
import tradingenv.transmitter as _tm
from tradingenv.transmitter import Transmitter

PROPERTY = "C15"


def _fold_indices(ep):
    idx = []
    for i in range(ep.N):
        inside = True
        if ep.S is not None:
            inside = bool(ep.S <= ep.T[i]) and bool(ep.T[i] <= ep.Eend)
        if inside:
            idx.append(i)
    return idx


def _run(c, ep, max_steps):
    env = ep.env
    # the timestep an interaction lands on = stamp of the latest event processed (bar data:
    # a quote sits exactly on every grid point); the transmitter itself has already
    # pre-fetched the next batch at this point
    landed = [env.now()]
    k = 0
    while not env._done and k < max_steps:
        env.step(ep.action(k))
        k += 1
        landed.append(env.now())
    return k, landed


def _fold(c, cfg):
    ep = Episode(c, cfg)
    idx = _fold_indices(ep)
    if not idx:
        c.out_of_scope("fold contains no grid point")
    ep.env.reset(fold=ep.fold_name)
    k, landed = _run(c, ep, ep.N + 2)
    s, last = idx[0], idx[-1]
    c.prove("C15:number-of-decisions=fold-size-1", k == last - s, info={"k": k, "s": s, "last": last})
    seen = landed[:k + 1]
    for j, t in enumerate(seen[: last - s + 1]):
        c.prove("C15:visits-consecutive-grid-points-of-the-fold-in-order", t == ep.T[s + j],
                info={"j": j, "t": t})
        if ep.S is not None:
            c.prove("C15:every-timestep-within-[start,end]", s_and(ep.S <= t, t <= ep.Eend), info={"t": t})
    c.record("k", k)
    c.reached("fold")


def _length(c, cfg):
    n = cfg["n"]
    ep = Episode(c, cfg)
    idx = _fold_indices(ep)
    size = len(idx)
    offered = []

    def fake_choice(a, p=None, **kw):
        m = len(a)
        offered.append((m, None if p is None else [float(x) for x in p]))
        if m == 0:
            raise ValueError("a must be non-empty")         # numpy's own behaviour
        pick = sym_int_var(c, "pick", 0, m - 1)
        if isinstance(pick, SymInt):
            for i in range(m):
                if bool(pick == i):
                    return i
            raise core.HarnessError("unreachable")
        return int(pick)

    real = np.random.choice
    np.random.choice = fake_choice
    try:
        try:
            ep.env.reset(fold=ep.fold_name)
            refused = None
        except (ValueError, IndexError, StopIteration) as ex:
            refused = ex
    finally:
        np.random.choice = real
    fits = max(0, size - n)         # start positions where n decisions (n+1 timesteps) fit in the fold
    if size == 0:
        c.out_of_scope("fold contains no grid point")
    if fits == 0:
        c.prove("C15:episode-that-does-not-fit-is-refused", refused is not None, info={"size": size, "n": n})
        c.reached("refused")
        return
    c.prove("C15:episode-that-fits-is-accepted", refused is None, info=repr(refused))
    if refused is not None:
        return
    c.prove("C15:start-drawn-from-exactly-the-positions-where-the-episode-fits",
            len(offered) == 1 and offered[0][0] == fits, info={"offered": offered, "fits": fits})
    if offered and offered[0][1] is not None:
        p = offered[0][1]
        c.prove("C15:every-fitting-start-has-positive-probability", all(x > 0 for x in p)
                and abs(sum(p) - 1) < 1e-9, info=p)
    start = ep.env.now()
    pos = [i for i in idx if bool(ep.T[i] == start)]
    c.prove("C15:start-is-a-grid-point-of-the-fold", len(pos) == 1)
    if len(pos) != 1:
        return
    k, landed = _run(c, ep, ep.N + 3)
    c.prove("C15:exactly-n-decisions", k == n, info={"k": k, "n": n})
    c.prove("C15:whole-episode-inside-the-fold", pos[0] + n <= idx[-1], info={"start": pos[0]})
    for j, t in enumerate(landed[: n + 1]):
        if pos[0] + j < ep.N:
            c.prove("C15:visits-consecutive-grid-points-of-the-fold-in-order", t == ep.T[pos[0] + j])
    c.reached("start@%d" % (pos[0] - idx[0]))
    c.reached("length")


def _walk(c, cfg):
    test_size = cfg["test_size"]
    sliding = cfg["sliding"]
    L = sym_int_var(c, "len", 2, 40)
    train = sym_int_var(c, "train", 1, 40)
    c.assume(train + test_size <= L)
    tr = Transmitter([datetime(2020, 1, 1)])
    symbolic = isinstance(L, SymInt)
    if symbolic:
        tr.timesteps = FakeTimesteps(L)
        stubs.install(_tm, "len", sym_len)
        stubs.install(_tm, "np", NumpyShim())
    else:
        tr.timesteps = list(range(L))
    try:
        folds = tr.walk_forward(train_size=train, test_size=test_size, sliding_window=sliding)
    finally:
        if symbolic:
            stubs.uninstall(_tm, "len")
            stubs.uninstall(_tm, "np")
    ts, te, vs, ve = folds.train_start, folds.train_end, folds.test_start, folds.test_end
    if symbolic:
        count = ts.count
        at = lambda P, j: P.at(j)
        for P in (te, vs, ve):
            c.prove("C15:fold-arrays-have-the-same-length", P.count == count)
    else:
        count = len(ts)
        at = lambda P, j: int(P[j])
        c.prove("C15:fold-arrays-have-the-same-length", len(te) == count and len(vs) == count and len(ve) == count)
    # number of folds: one per test window that fits entirely
    expected = L - train - test_size + 1                      # number of admissible starts (>= 1)
    # count == ceil(expected / test_size)
    c.prove("C15:number-of-folds=ceil((len-train-test+1)/test)",
            s_and(count * test_size >= expected, (count - 1) * test_size < expected))
    j = sym_int_var(c, "j", 0, 40)
    c.assume(j < count)
    c.prove("C15:test-starts-immediately-after-own-training-window", at(vs, j) == at(te, j) + 1)
    c.prove("C15:test-window-has-requested-size", at(ve, j) - at(vs, j) + 1 == test_size)
    c.prove("C15:windows-inside-the-data", s_and(at(ts, j) >= 0, at(ve, j) <= L - 1, at(ts, j) <= at(te, j)))
    if sliding:
        c.prove("C15:sliding-training-window-has-requested-size", at(te, j) - at(ts, j) + 1 == train)
    else:
        c.prove("C15:expanding-training-window-starts-at-0", at(ts, j) == 0)
    if bool(j + 1 < count):
        c.prove("C15:test-windows-disjoint-ordered-and-adjacent", at(vs, j + 1) == at(ve, j) + 1)
        c.reached("walk-consecutive")
    c.record("fold_j", [at(ts, j), at(te, j), at(vs, j), at(ve, j)])
    c.reached("walk")


def _badfold(c, cfg):
    """A fold whose end precedes its start is rejected when the transmitter is built."""
    from symx.timeproxy import sym_time
    S = sym_time(c, "S")
    E = sym_time(c, "Eend")
    c.assume(E < S)
    try:
        Transmitter([datetime(2020, 1, 1), datetime(2020, 1, 2)], folds={"training-set": [S, E]})
        rejected = False
    except ValueError:
        rejected = True
    c.prove("C15:fold-with-end-before-start-is-rejected", rejected)
    S2 = sym_time(c, "S2")
    c.assume(S2 <= S)
    Transmitter([datetime(2020, 1, 1), datetime(2020, 1, 2)], folds={"a": [S2, S2], "b": [E, S]})   # start == end is fine
    c.reached("badfold")


def harness(c, cfg):
    {"fold": _fold, "length": _length, "walk": _walk, "badfold": _badfold}[cfg["part"]](c, cfg)


def configs(tier):
    out = []

    def add(**kw):
        kw["id"] = "C15/" + ",".join("%s=%s" % kv for kv in sorted(kw.items()))
        out.append(kw)

    add(part="badfold")
    add(part="fold", N=4, M=0, fold="sym")
    add(part="fold", N=3, M=0, fold="two")
    add(part="fold", N=3, M=1, fold="sym", latency="sym", free_kinds=["ping"])
    for N in (3, 4):
        for n in range(1, N + 2):
            add(part="length", N=N, M=0, n=n, episode_length=n)
    add(part="length", N=4, M=0, n=2, episode_length=2, fold="sym")
    add(part="length", N=4, M=0, n=1, episode_length=1, fold="sym")
    for ts in (1, 2, 3):
        for sliding in (True, False):
            add(part="walk", test_size=ts, sliding=sliding)
    if tier == "thorough":
        add(part="fold", N=5, M=0, fold="sym")
        add(part="fold", N=4, M=0, fold="two")
        add(part="fold", N=4, M=1, fold="sym", latency="sym", free_kinds=["ping"], markov=True)
        for n in range(1, 7):
            add(part="length", N=5, M=0, n=n, episode_length=n)
        for n in (1, 2, 3, 4):
            add(part="length", N=5, M=0, n=n, episode_length=n, fold="sym")
            add(part="length", N=4, M=0, n=n, episode_length=n, fold="two")
        for ts in (4, 5):
            for sliding in (True, False):
                add(part="walk", test_size=ts, sliding=sliding)
    return out


ANCHORS = ["transmitter.py:Transmitter._reset", "transmitter.py:Transmitter._next",
           "transmitter.py:Transmitter.walk_forward", "transmitter.py:PartitionTimeRanges.verify_start_before_end",
           "env.py:TradingEnv.reset", "env.py:TradingEnv.step"]
EXPECT_REACH = ["fold", "length", "refused", "walk", "walk-consecutive", "start@0", "start@1", "badfold"]
ASSUMPTIONS = _A + [
    "np.random.choice is replaced by a stub that records the population it is offered and forks over every index "
    "it could return (so every admissible start is explored, and nothing else)",
    "walk-forward: len(timesteps) in [2, 40] and train_size in [1, 40] symbolic with train+test <= len; test_size "
    "concrete in 1..5 (it is a slice step); the fold index j is symbolic",
    "episode length configured through TradingEnv(episode_length=n), n >= 1",
]
BOUNDS = {"quick": "grids of 3-4 timesteps, symbolic fold window(s), every n in 1..size+1; walk-forward test_size 1-3",
          "thorough": "grids of 5, two (overlapping) folds with episode length, markov reset; test_size 4-5"}
OUTSIDE = ["sampling_span weights beyond positivity/normalisation", "reset(episode_length=...) per-call override",
           "grids > 5 timesteps; len(timesteps) > 40 in walk_forward"]
STUBS = ["np.random.choice -> recording/forking stub", "walk-forward only: builtin len() and np.arange shadowed in "
         "tradingenv.transmitter by symbolic-length stand-ins (SymArange / SymProgression with python slice "
         "semantics); validated against the real numpy in the concrete re-run of every path"]
DEADLINE_S = {"quick": 900, "thorough": 3600}
TASK_S = 6.0
