"""Family L, from-reset sequences: 2-3 operations from a *fresh* account (real Broker
constructor, no hand-built state).  Complements the one-step inductive harness (l_ops):
the closed form of C01 is checked against the real valuation after every operation of the
sequence, C05's invariant after every valuation, and the shapes of bookkeeping that real
histories create are exactly what l_ops' INV pre-states assume."""
from __future__ import annotations

from symx.core import s_or, SymReal
from harness.ledger import user_contract, builtin_contract, quote, EPS, Q_HI, P_LO, P_HI
from tradingenv.broker.broker import Broker
from tradingenv.broker.fees import BrokerFees
from tradingenv.broker.trade import Trade
from tradingenv.contracts import Cash
from tradingenv.exchange import Exchange


class Con:
    def __init__(self, c, tag, kind):
        self.tag, self.kind = tag, kind
        self.m = c.real("m_" + tag, 1e-3, 1e4)
        self.r = c.real("r_" + tag, 0, 1, lo_strict=True) if kind == "margined" else 0.0
        self.contract = user_contract("U" + tag, kind, self.m, self.r)
        self.q = 0.0
        self.paid = 0.0
        self.bid = self.ask = None
        self.nq = 0

    def new_quote(self, c, ex):
        self.nq += 1
        self.bid = c.real("bid%d_%s" % (self.nq, self.tag), P_LO, P_HI)
        self.ask = c.real("ask%d_%s" % (self.nq, self.tag), P_LO, P_HI)
        c.assume(self.bid <= self.ask)
        quote(ex, self.contract, self.bid, self.ask)

    def liq_value(self):
        if self.q != 0:
            return self.m * self.q * (self.bid if self.q > 0 else self.ask)
        return 0.0


def harness(c, cfg):
    prop = cfg["prop"]
    ex = Exchange()
    quote(ex, Cash(), 1.0, 1.0)
    fixed = c.real("fee_fixed", 0, 1e3)
    propf = c.real("fee_prop", 0, 1)
    fee = BrokerFees(fixed=fixed, proportional=propf)
    quote(ex, fee.interest_rate, 0.0, 0.0)
    deposit = c.real("deposit", 1, 1e9)
    c.scale_hint(deposit)
    br = Broker(exchange=ex, deposit=deposit, fees=fee)
    cons = {t: Con(c, t, k) for t, k in cfg["contracts"]}
    for con in cons.values():
        con.new_quote(c, ex)
    comm = 0.0
    ntrade = 0
    for step, (op, tag) in enumerate(cfg["seq"]):
        con = cons.get(tag)
        if op == "t":
            ntrade += 1
            dq = c.real("dq%d" % ntrade, -Q_HI, Q_HI)
            c.assume(dq != 0)
            q1 = con.q + dq
            c.assume(s_or(q1 == 0, q1 >= EPS, q1 <= -EPS))
            tr = Trade(None, con.contract, dq, con.bid, con.ask, fee)
            br.transact(tr)
            acq = con.ask if dq > 0 else con.bid
            comm = comm + fixed + propf * abs(acq * dq * con.m)
            con.paid = con.paid + dq * acq * con.m
            con.q = q1
            c.scale_hint(dq * acq * con.m)
        elif op == "q":
            con.new_quote(c, ex)
        elif op == "m":
            br.marking_to_market()
        elif op == "v":
            br.net_liquidation_value(False)
            br.holdings_values()
        # ---- after every operation: valuation against the closed form of the whole history
        nlv = br.net_liquidation_value(False)
        closed = deposit - comm
        for k in cons.values():
            closed = closed + k.liq_value() - k.paid
        if prop == "C01":
            c.prove_eq("C01:history-closed-form-after-%d-operations" % (step + 1), nlv, closed)
        else:
            total = br._holdings_quantity[br.base_currency]
            for k in cons.values():
                M = br._holdings_margins.get(k.contract, 0.0)
                q = br._holdings_quantity.get(k.contract, 0.0)
                c.prove_eq("C05:history:position", q, k.q)
                if k.kind == "margined" and k.q != 0:
                    c.prove_eq("C05:history:margin=r*m*|q|*liq", M,
                               k.r * k.m * abs(k.q) * (k.bid if k.q > 0 else k.ask))
                else:
                    c.prove_eq("C05:history:no-margin-when-flat-or-fully-paid", M, 0.0)
                total = total + M
                if k.kind == "spot":
                    total = total + k.liq_value()
            c.prove_eq("C05:history:cash+margins+paid-positions=NLV", total, nlv)
        c.record("nlv%d" % step, nlv)
    c.reached("sequence")


def configs_for(prop, tier):
    out = []

    def add(contracts, seq):
        cfg = {"prop": prop, "op": "seq", "contracts": contracts, "seq": seq,
               "id": "%s/seq:%s:%s" % (prop, "+".join("%s=%s" % (t, k) for t, k in contracts),
                                       "".join(o + t for o, t in seq))}
        out.append(cfg)

    for kind in ("spot", "margined"):
        A = [["A", kind]]
        add(A, [["t", "A"], ["t", "A"]])
        add(A, [["t", "A"], ["q", "A"], ["t", "A"]])
        add(A, [["t", "A"], ["q", "A"], ["m", "A"]])
    if tier == "thorough":
        for kind in ("spot", "margined"):
            A = [["A", kind]]
            add(A, [["t", "A"], ["t", "A"], ["t", "A"]])
            add(A, [["t", "A"], ["q", "A"], ["v", "A"], ["t", "A"]])
            add(A, [["q", "A"], ["t", "A"], ["q", "A"], ["t", "A"]])
        for ka in ("spot", "margined"):
            for kb in ("spot", "margined"):
                AB = [["A", ka], ["B", kb]]
                add(AB, [["t", "A"], ["t", "B"], ["q", "A"]])
                add(AB, [["t", "A"], ["q", "B"], ["t", "B"], ["t", "A"]])
    return out
