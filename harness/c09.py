"""C09 — insolvency safety (family L for the valuation clause, family E for episodes)."""
from __future__ import annotations

import numpy as np

from symx import core, stubs
from symx.core import SymReal, s_and, s_or
from harness.episode import Episode, ASSUMPTIONS as _A
from harness.c07 import Ledger, _quotes_at
from harness.ledger import Leg, build_account, oracle_nlv
from tradingenv import rewards as _rewards_mod
from tradingenv.broker.broker import EndOfEpisodeError
from tradingenv.broker.rebalancing import Rebalancing
from harness.l_rebalance import T0

PROPERTY = "C09"


def harness(c, cfg):
    sym = c.mode == "sym"
    if sym:
        stubs.install(_rewards_mod, "float", core.sym_float)
    try:
        if cfg["family"] == "L":
            _valuation(c, cfg)
        else:
            _episode(c, cfg)
    finally:
        if sym:
            stubs.uninstall(_rewards_mod, "float")


def _valuation(c, cfg):
    legs = [Leg(c, "A", cfg["kindA"], cfg["shapeA"])]
    ex, br, fee, cash = build_account(c, legs)
    nlv = br.net_liquidation_value(False)
    c.prove_eq("C09:valuation-without-raise=closed-form", nlv, oracle_nlv(cash, legs))
    try:
        got = br.net_liquidation_value()
        raised = False
    except EndOfEpisodeError:
        raised = True
    broke = bool(nlv <= 0)           # forks: the solver picks the exact boundary nlv == 0
    c.prove("C09:valuation-raises-iff-nlv<=0", raised == broke, info={"nlv": nlv, "raised": raised})
    if not raised:
        c.prove_eq("C09:valuation-returns-nlv", got, nlv)
    # a rebalance requested in that state executes nothing
    q_before = dict(br._holdings_quantity)
    n = len(br.track_record)
    w = c.real("w", -2, 2)
    reb = Rebalancing(contracts=[legs[0].contract], allocation=[w], time=T0)
    try:
        br.rebalance(reb)
        r_raised = False
    except EndOfEpisodeError:
        r_raised = True
    if broke:
        c.prove("C09:rebalance-refused-when-broke", r_raised)
        c.prove_eq("C09:no-trade-when-broke", br._holdings_quantity.get(legs[0].contract, 0.0),
                   q_before.get(legs[0].contract, 0.0))
        c.prove("C09:no-record-when-broke", len(br.track_record) == n)
        c.reached("broke")
    c.reached("valuation")


def _episode(c, cfg):
    cfg = dict(cfg, reward=cfg.get("reward_kind", "RewardSimpleReturn"), sym_prices=True)
    ep = Episode(c, cfg)
    env = ep.env
    mult = {con.symbol: con.multiplier for con in ep.contracts}
    env.reset()
    led = Ledger(100.0)
    w0 = 2.0 if cfg.get("side", "long") == "long" else -1.0
    ruined = False            # oracle: NLV has been <= 0 at some observation point
    told_done = False         # env told the caller that the episode ended (done=True or refusal)
    k = 0
    while k < ep.N - 1:
        k += 1
        act = np.array([w0 if k == 1 else 0.5 * w0])
        n_rec = len(env.broker.track_record)
        q_before = {con: env.broker._holdings_quantity.get(con, 0.0) for con in ep.contracts}
        quotes_dec = _quotes_at(c, ep, t_prev=ep.T[k - 1])
        nlv_dec = led.nlv(quotes_dec, mult)
        broke_at_decision = bool(nlv_dec <= 0)
        try:
            _, r, done, info = env.step(act)
            raised = None
        except (EndOfEpisodeError, IndexError) as ex:
            import traceback
            raised = "%s | %s" % (type(ex).__name__, traceback.format_exc(limit=-2)[-600:])
            done = None
        recorded = len(env.broker.track_record) > n_rec
        q_after = {con: env.broker._holdings_quantity.get(con, 0.0) for con in ep.contracts}
        moved = any(not (q_after[con] is q_before[con]) and bool(q_after[con] != q_before[con]) for con in ep.contracts)
        if told_done:
            c.prove("C09:step-after-end-of-episode-is-refused", raised is not None and raised.startswith("EndOfEpisodeError")
                    and not recorded and not moved, info={"raised": raised})
            c.reached("refused")
            continue
        if broke_at_decision:
            # NLV <= 0 when the decision arrives (insolvency occurred in this step's latent events)
            c.prove("C09:insolvent-account-never-trades", not recorded and not moved, info={"step": k})
            c.prove("C09:insolvent-decision-ends-episode", env._done is True)
            c.reached("broke-at-decision")
            ok = c.prove("C09:ruin-step-returns-done", raised is None and done is True,
                         info={"sig": "%s/latent" % (raised or "none").split(" |")[0], "step": k,
                               "where": "latent events before the decision", "exception": raised})
            told_done = True        # env._done is set: every further step must be refused
            continue
        # solvent at decision time: the rebalance is attempted
        if recorded:
            for tr in env.broker.track_record[-1].trades:
                led.apply(tr, c)
            after = _quotes_at(c, ep, upto=ep.T[k])
            nlv_after = led.nlv(after, mult)
            ruin_now = bool(nlv_after <= 0)
            where = "market events after the execution"
        else:
            # no record although solvent: only legitimate if the rebalance itself (spread,
            # fees) took the account to NLV <= 0 - valued with the holdings the broker now has
            cash_now = env.broker._holdings_quantity[env.broker.base_currency]
            post = cash_now
            for con in ep.contracts:
                qn = q_after[con]
                if qn != 0:
                    b_, a_ = quotes_dec[con.symbol]
                    post = post + qn * mult[con.symbol] * (b_ if qn > 0 else a_)
            c.prove("C09:solvent-decision-is-executed-unless-trading-costs-ruin-the-account", post <= 0,
                    info={"step": k, "post_trade_nlv": post})
            ruin_now = True
            where = "the execution itself (spread / fees)"
        if ruin_now:
            c.reached("ruin-step")
            c.prove("C09:ruin-step-returns-done", raised is None and done is True,
                    info={"sig": "%s/%s" % ((raised or "none").split(" |")[0], where), "step": k, "where": where,
                          "exception": raised})
            if raised is not None:
                break       # the episode did not end as it should: what follows is conditioned on that
            told_done = True
        else:
            c.prove("C09:solvent-step-does-not-fail", raised is None, info={"exception": raised})
            if raised is None:
                c.prove("C09:done-only-at-end-of-data", bool(done) == (k == ep.N - 1))
                told_done = bool(done)
    # ---- an episode that ended (for whatever reason) refuses further steps until reset
    if env._done:
        n_rec = len(env.broker.track_record)
        try:
            env.step(np.array([0.1]))
            refused = False
        except EndOfEpisodeError:
            refused = True
        c.prove("C09:step-after-end-of-episode-is-refused", refused and len(env.broker.track_record) == n_rec,
                info={"raised": "none" if not refused else "EndOfEpisodeError"})
        c.reached("refused-after-end")
    # ---- reset gives a working environment again
    env.reset()
    try:
        _, r, done, info = env.step(np.array([0.5]))
        ok = "_rebalancing" in info
    except EndOfEpisodeError:
        ok = False
    c.prove("C09:reset-restores-a-solvent-episode", ok)
    c.prove_eq("C09:reset-restores-the-initial-deposit", info["_rebalancing"].context_pre.nlv if ok else 0.0, 100.0)
    c.reached("episode")


def configs(tier):
    out = []

    def add(**kw):
        kw["id"] = "C09/" + ",".join("%s=%s" % kv for kv in sorted(kw.items()))
        out.append(kw)

    for kind in ("spot", "margined"):
        for shape in ("long", "short", "flat"):
            add(family="L", kindA=kind, shapeA=shape)
    for side in ("long", "short"):
        add(family="E", N=4, M=0, side=side, reward_kind="RewardSimpleReturn")
        add(family="E", N=3, M=1, side=side, latency="sym", free_kinds=["quote"], reward_kind="RewardSimpleReturn")
    add(family="E", N=3, M=0, side="long", reward_kind="RewardPnL")
    add(family="E", N=3, M=0, side="long", reward_kind="RewardLogReturn")
    if tier == "thorough":
        # measured: grids of 4 with a log reward or an extra quote cost > 90 minutes (and leave
        # nonlinear feasibility queries undecided); the thorough tier covers every reward class
        # and both sides on grids of 3, and the P&L reward on a grid of 4
        for rk in ("RewardLogReturn", "LogReturn", "RewardPnL"):
            for side in ("long", "short"):
                add(family="E", N=3, M=0, side=side, reward_kind=rk)
        for side in ("long", "short"):
            add(family="E", N=4, M=0, side=side, reward_kind="RewardPnL")
            add(family="E", N=3, M=1, side=side, latency="sym", free_kinds=["quote"], reward_kind="RewardPnL")
    return out


ANCHORS = ["broker.py:Broker.net_liquidation_value", "broker.py:Broker.rebalance", "env.py:TradingEnv.step",
           "env.py:TradingEnv.reset", "rewards.py:RewardSimpleReturn.calculate"]
EXPECT_REACH = ["valuation", "broke", "episode", "ruin-step", "broke-at-decision", "refused", "refused-after-end"]
ASSUMPTIONS = _A + ["episode configs: one spot contract bought with weight 2 (leveraged) or sold short with weight "
                    "-1 on the first step, then symbolic quotes 0 < bid <= ask decide where NLV crosses zero",
                    "builtin float() shadowed in tradingenv.rewards (identity on proxies)"]
BOUNDS = {"quick": "valuation/rebalance from every INV shape (one contract); episodes over grids of 3-4 timesteps, "
                   "optionally one extra quote within/after the latency window, rewards SimpleReturn/PnL/LogReturn",
          "thorough": "all four reward classes and both sides on grids of 3; P&L reward on a grid of 4 and with an extra "
                      "quote"}
OUTSIDE = ["more than one contract in the episode", "grids > 4"]
STUBS = ["builtin float() shadowed in tradingenv.rewards", "np.log uninterpreted (LogReturn configs)"]
DEADLINE_S = {"quick": 900, "thorough": 5400}
TASK_S = 8.0
