"""C14 — order book semantics: last quote wins, per-contract isolation, dead stays dead.

The interleaving of quote / discontinuation events over an asset, two futures and the
chain made of them is enumerated; quote values, the sign of the queried quantity and the
clock that resolves the chain key are symbolic."""
from __future__ import annotations

import itertools
import math
from datetime import datetime, timedelta

import numpy as np

from symx import core
from symx.core import SymReal
from symx.timeproxy import sym_time
from tradingenv.contracts import ETF, ES, FutureChain, AbstractContract
from tradingenv.events import EventNBBO, EventContractDiscontinued
from tradingenv.exchange import Exchange

PROPERTY = "C14"
T0 = datetime(2029, 6, 1)
KEYS = ("X", "F1", "F2")


def _isnan(x):
    return isinstance(x, float) and math.isnan(x)


def harness(c, cfg):
    X = ETF("SPY")
    F1, F2 = ES(2030, 3), ES(2030, 6)
    chain = FutureChain(contracts=[F1, F2])
    cons = {"X": X, "F1": F1, "F2": F2}
    ex = Exchange()
    model = {k: {"alive": True, "bid": float("nan"), "ask": float("nan"), "hist": []} for k in KEYS}
    saved_now = AbstractContract.now
    try:
        for n, (kind, key) in enumerate(cfg["seq"]):
            t = T0 + timedelta(seconds=n)
            if kind == "q":
                b = c.real("bid%d" % n, 1e-3, 1e6)
                a = c.real("ask%d" % n, 1e-3, 1e6)
                c.assume(b <= a)
                via_chain = cfg.get("via_chain") and key in ("F1", "F2")
                ex.process_EventNBBO(EventNBBO(t, cons[key], b, a))
                if model[key]["alive"]:
                    model[key]["bid"], model[key]["ask"] = b, a
                    model[key]["hist"].append((t, b, a))
            else:
                ex.process_EventContractDiscontinued(EventContractDiscontinued(t, cons[key]))
                model[key].update(alive=False, bid=float("nan"), ask=float("nan"))
        # ---- every book shows exactly its own last accepted quote
        for key in KEYS:
            book = ex[cons[key]]
            m = model[key]
            c.prove("C14:alive-flag", book.is_alive == m["alive"])
            for side in ("bid", "ask"):
                got = getattr(book, side + "_price")
                want = m[side]
                if _isnan(want):
                    c.prove("C14:no-price-when-never-quoted-or-discontinued[%s]" % side, _isnan(got),
                            info={"key": key, "got": got})
                else:
                    c.prove("C14:book-shows-last-accepted-quote-of-its-own-contract[%s]" % side,
                            not _isnan(got) and bool(got is want) or got == want, info={"key": key})
            if m["hist"]:
                c.prove("C14:book-time=stamp-of-last-accepted-quote-or-discontinuation",
                        book.time is not None and (m["alive"] is False or book.time == m["hist"][-1][0]))
            for fld in ("mid_price", "bid_size", "ask_size"):
                c.prove("C14:history-fields-in-step", len(book.history[fld]) == len(m["hist"]),
                        info={"key": key, "field": fld, "got": len(book.history[fld]), "want": len(m["hist"])})
            hb = book.history["bid_price"]
            ha = book.history["ask_price"]
            ht = book.history["time"]
            c.prove("C14:history-has-one-entry-per-accepted-quote", len(hb) == len(m["hist"]) == len(ha) == len(ht),
                    info={"key": key, "got": len(hb), "want": len(m["hist"])})
            for (t, b, a), gb, ga, gt in zip(m["hist"], hb, ha, ht):
                c.prove("C14:history-in-order", gt == t)
                c.prove_eq("C14:history-values", gb, b)
                c.prove_eq("C14:history-values", ga, a)
            # ---- buy at ask, sell at bid, flat at mid
            if m["alive"] and not _isnan(m["bid"]):
                q = c.real("q_" + key, -10, 10)
                px = book.acq_price(q)
                lq = book.liq_price(q)
                if q > 0:
                    c.prove_eq("C14:purchase-at-ask", px, m["ask"])
                    c.prove_eq("C14:long-liquidates-at-bid", lq, m["bid"])
                elif q < 0:
                    c.prove_eq("C14:sale-at-bid", px, m["bid"])
                    c.prove_eq("C14:short-liquidates-at-ask", lq, m["ask"])
                else:
                    c.prove_eq("C14:flat-at-mid", px, (m["bid"] + m["ask"]) / 2)
                    c.prove_eq("C14:flat-liquidates-at-mid", lq, (m["bid"] + m["ask"]) / 2)
                zero = book.liq_price(0.0)
                c.prove_eq("C14:flat-liquidates-at-mid", zero, (m["bid"] + m["ask"]) / 2)
                c.prove_eq("C14:flat-at-mid", book.acq_price(0), (m["bid"] + m["ask"]) / 2)
                c.prove_eq("C14:mid-price", book.mid_price, (m["bid"] + m["ask"]) / 2)
                c.prove_eq("C14:spread", book.spread, m["ask"] - m["bid"])
        nb = [n for n, (k_, _) in enumerate(cfg["seq"]) if k_ == "q"]
        if nb:
            c.prove("C14:exchange-last-update=stamp-of-last-quote-event", ex.last_update == T0 + timedelta(seconds=nb[-1]))
        # ---- symbol / string keys address the same book
        c.prove("C14:string-key-addresses-the-contract-book", ex["SPY"] is ex[X] and ex[F1.symbol] is ex[F1])
        # ---- vectorised accessors agree with the books
        arr = ex.acq_prices([X, F1, F2], np.array([1, -1, 0]))
        want = [model["X"]["ask"], model["F1"]["bid"],
                (model["F2"]["bid"] + model["F2"]["ask"]) / 2]
        for g, w in zip(arr, want):
            if _isnan(w):
                c.prove("C14:acq_prices-nan-when-no-price", _isnan(g))
            else:
                c.prove_eq("C14:acq_prices-vectorised", g, w)
        larr = ex.liq_prices([X, F1, F2], np.array([1, -1, 0]))
        lwant = [model["X"]["bid"], model["F1"]["ask"], (model["F2"]["bid"] + model["F2"]["ask"]) / 2]
        for g, w in zip(larr, lwant):
            if _isnan(w):
                c.prove("C14:liq_prices-nan-when-no-price", _isnan(g))
            else:
                c.prove_eq("C14:liq_prices-vectorised", g, w)
        for fn, side in ((ex.bid_prices, "bid"), (ex.ask_prices, "ask")):
            for g, key in zip(fn([X, F1, F2]), KEYS):
                w = model[key][side]
                if _isnan(w):
                    c.prove("C14:%s_prices-nan-when-no-price" % side, _isnan(g))
                else:
                    c.prove_eq("C14:%s_prices-vectorised" % side, g, w)
        for g, key in zip(ex.mid_prices([X, F1, F2]), KEYS):
            if not _isnan(model[key]["bid"]):
                c.prove_eq("C14:mid_prices-vectorised", g, (model[key]["bid"] + model[key]["ask"]) / 2)
        for g, key in zip(ex.spreads([X, F1, F2]), KEYS):
            if not _isnan(model[key]["bid"]):
                c.prove_eq("C14:spreads-vectorised", g, model[key]["ask"] - model[key]["bid"])
        # ---- a futures-chain key addresses the book of its current lead contract
        now = sym_time(c, "now", lo=datetime(2029, 1, 1), hi=F2.last_trading_date)
        AbstractContract.now = now
        lead = F1 if bool(now < F1.last_trading_date) else F2
        c.prove("C14:chain-key-addresses-current-lead-book", ex[chain] is ex[lead],
                info={"now": now, "lead": lead.symbol})
        # ... also for a chain configured with a month offset (second-nearest contract)
        F3 = ES(2030, 9)
        chain1 = FutureChain(contracts=[F1, F2, F3], month=1)
        lead1 = F2 if lead is F1 else F3
        c.prove("C14:offset-chain-key-addresses-its-lead-book", ex[chain1] is ex[lead1] and
                chain1.lead_contract() is lead1, info={"now": now, "lead": lead1.symbol})
        arr1 = ex.acq_prices([chain, chain1], np.array([1, 1]))
        want1 = [ex[lead].ask_price, ex[lead1].ask_price]
        for g, w in zip(arr1, want1):
            if _isnan(w):
                c.prove("C14:acq_prices-chain-keys", _isnan(g))
            else:
                c.prove_eq("C14:acq_prices-chain-keys", g, w)
        c.record("books", [[k, model[k]["alive"], model[k]["bid"], model[k]["ask"]] for k in KEYS])
        c.reached("sequence")
    finally:
        AbstractContract.now = saved_now


def configs(tier):
    out = []
    L = 4 if tier == "thorough" else 3
    alphabet = [(k, key) for k in ("q", "d") for key in KEYS]
    for n in range(1, L + 1):
        for seq in itertools.product(alphabet, repeat=n):
            if n == L and tier != "thorough" and sum(1 for k, _ in seq if k == "q") == 0:
                continue
            out.append({"id": "C14/" + "".join("%s%s." % (k, key) for k, key in seq), "seq": [list(x) for x in seq]})
    return out


ANCHORS = ["exchange.py:LimitOrderBook.update", "exchange.py:LimitOrderBook.terminate",
           "exchange.py:LimitOrderBook.acq_price", "exchange.py:LimitOrderBook.liq_price",
           "exchange.py:Exchange.__getitem__", "exchange.py:Exchange.process_EventNBBO",
           "exchange.py:Exchange.process_EventContractDiscontinued", "exchange.py:Exchange.acq_prices",
           "contracts.py:AbstractContract.__hash__", "contracts.py:FutureChain.static_hashing"]
EXPECT_REACH = ["sequence"]
ASSUMPTIONS = ["quotes 0 < bid <= ask in [1e-3, 1e6] symbolic; the queried quantity symbolic in [-10, 10]; the clock that "
               "resolves the chain symbolic anywhere before the last listed contract stops trading",
               "the interleaving of events is enumerated (a finite structure), values are symbolic"]
BOUNDS = {"quick": "every sequence of <= 3 quote/discontinuation events over {ETF, ES H30, ES M30}",
          "thorough": "every sequence of <= 4 events"}
OUTSIDE = ["more than 3 contracts / 4 events", "Exchange.to_frame (pandas)"]
STUBS = []
DEADLINE_S = {"quick": 600, "thorough": 3600}
TASK_PATHS = 200
