"""C13 — missing prices fail loudly; a rebalance is all-or-nothing (family L)."""
from harness import l_rebalance
from harness.ledger import ASSUMPTIONS as _A

PROPERTY = "C13"
harness = l_rebalance.harness
PATTERNS = ("never", "bidnan", "asknan", "both", "dead", "dead-then-quoted")


def configs(tier):
    out = []

    def add(**kw):
        kw["prop"] = "C13"
        q = kw.get("quotes", {})
        kw["id"] = "C13/" + ",".join("%s=%s" % (k, v) for k, v in sorted(kw.items())
                                     if k not in ("prop", "quotes")) + ",quotes=" + \
            "+".join("%s:%s" % kv for kv in sorted(q.items()))
        out.append(kw)

    kinds = ("spot", "margined")
    # one contract: held long/short/flat/never-traded x targeted or not x every pattern
    for kind in kinds:
        for pat in PATTERNS + ("ok",):
            for shape in ("long", "short", "flat", "fresh"):
                for role in ("target", "untargeted"):
                    if shape == "fresh" and role == "untargeted":
                        continue
                    add(kindA=kind, shapeA=shape, roleA=role, measure="weight", quotes={"A": pat})
            add(kindA=kind, shapeA="held", roleA="target", measure="nr-contracts", quotes={"A": pat})
    # two contracts: A healthy and targeted, B broken (and vice versa)
    pats2 = PATTERNS if tier == "thorough" else ("never", "bidnan", "asknan", "dead")
    for ka in kinds:
        for kb in kinds if tier == "thorough" else (ka,):
            for pat in pats2:
                for sb in ("long", "short", "flat"):
                    for rb in ("target", "untargeted"):
                        add(kindA=ka, shapeA="held", roleA="target", kindB=kb, shapeB=sb, roleB=rb,
                            measure="weight", quotes={"B": pat})
                if tier == "thorough":
                    for sa in ("long", "short", "fresh"):
                        add(kindA=ka, shapeA=sa, roleA="target", kindB=kb, shapeB="held", roleB="target",
                            measure="weight", quotes={"A": pat})
                        add(kindA=ka, shapeA=sa, roleA="target", kindB=kb, shapeB="held", roleB="target",
                            measure="weight", quotes={"A": pat, "B": pat})
    return out


ANCHORS = ["broker.py:Broker.holdings_values", "broker.py:Broker.net_liquidation_value",
           "broker.py:Broker.marking_to_market", "broker.py:Broker.rebalance", "trade.py:Trade.__init__",
           "exchange.py:LimitOrderBook.acq_price", "exchange.py:LimitOrderBook.terminate",
           "exchange.py:Exchange.process_EventContractDiscontinued"]
EXPECT_REACH = ["valuation", "failed-rebalance", "successful-rebalance"]
ASSUMPTIONS = _A + ["the missing-quote pattern of each contract is a concrete structure enumerated by the harness "
                    "(never quoted / bid NaN / ask NaN / both NaN / discontinued / discontinued then quoted); "
                    "symbolic values are never NaN", "NLV before trading > 0 where it is defined",
                    "interest rate book 0/0, so cash must be exactly unchanged by a failed rebalance"]
BOUNDS = {
    "quick": "one contract (every pattern x long/short/flat/never traded x targeted or not, both measures); two "
             "contracts of the same kind with the second one broken",
    "thorough": "two contracts of mixed kinds, either or both broken, all six patterns",
}
OUTSIDE = ["more than two non-cash contracts", "quotes going missing in the middle of a rebalance (not possible: "
           "no event is processed inside Broker.rebalance)"]
STUBS = []
DEADLINE_S = {"quick": 600, "thorough": 3600}
