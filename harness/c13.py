"""C13 — missing prices fail loudly; a rebalance is all-or-nothing (family L)."""
from harness import l_rebalance
from harness.ledger import ASSUMPTIONS as _A

PROPERTY = "C13"


def harness(c, cfg):
    if cfg.get("family") == "E":
        return _episode(c, cfg)
    return l_rebalance.harness(c, cfg)


def _episode(c, cfg):
    """A single future is held through its expiry (no roll): once its book is dead, the next
    step must fail loudly instead of valuing the position, and leave the account untouched."""
    from datetime import datetime
    import numpy as np
    from symx import core, stubs
    from harness.episode import Episode
    from tradingenv import rewards as _rw
    from tradingenv.contracts import AbstractContract
    from tradingenv.broker.broker import EndOfEpisodeError
    sym = c.mode == "sym"
    if sym:
        stubs.install(_rw, "float", core.sym_float)
    saved = AbstractContract.now
    AbstractContract.now = datetime.min
    try:
        ep = Episode(c, dict(cfg, contract="future", sym_prices=False))
        F = ep.X
        exp = F.expiry
        env = ep.env
        env.reset()
        k = 0
        dead = False
        while not env._done and k < ep.N + 1:
            n_rec = len(env.broker.track_record)
            q_before = env.broker._holdings_quantity.get(F, 0.0)
            cash_before = env.broker._holdings_quantity[env.broker.base_currency]
            was_dead = not env.exchange[F].is_alive
            holding = bool(q_before != 0)
            act = np.array([0.5 if cfg.get("side", "long") == "long" else -0.5])
            try:
                env.step(act)
                raised = None
            except EndOfEpisodeError:
                c.out_of_scope("ruin")
            except (ValueError, KeyError) as ex:
                raised = ex
            k += 1
            if was_dead and holding:
                c.prove("C13:episode:step-fails-loudly-when-a-held-contract-has-no-quote", raised is not None)
                c.prove_eq("C13:episode:failed-step-leaves-position", env.broker._holdings_quantity.get(F, 0.0), q_before)
                c.prove("C13:episode:failed-step-adds-no-record", len(env.broker.track_record) == n_rec)
                c.prove_eq("C13:episode:failed-step-leaves-cash", env.broker._holdings_quantity[env.broker.base_currency],
                           cash_before)
                c.reached("dead-and-held")
                break
            if raised is not None:
                # the discontinuation arrived among this step's latent events, before the execution
                # the discontinuation arrived during this step (before the execution if latent, else
                # before the reward's valuation): failing is right, but only for that reason
                c.prove("C13:episode:only-a-missing-quote-may-fail-a-step", not env.exchange[F].is_alive,
                        info=repr(raised))
                c.reached("dead-during-step")
                if k > ep.N + 1:
                    break
        c.record("k", k)
        c.reached("episode")
    finally:
        AbstractContract.now = saved
        if sym:
            stubs.uninstall(_rw, "float")
PATTERNS = ("never", "bidnan", "asknan", "both", "dead", "dead-then-quoted")


def configs(tier):
    out = []

    def add(**kw):
        kw["prop"] = "C13"
        q = kw.get("quotes", {})
        kw["id"] = "C13/" + ",".join("%s=%s" % (k, v) for k, v in sorted(kw.items())
                                     if k not in ("prop", "quotes")) + ",quotes=" + \
            "+".join("%s:%s" % kv for kv in sorted(q.items()))
        out.append(kw)

    kinds = ("spot", "margined")
    # one contract: held long/short/flat/never-traded x targeted or not x every pattern
    for kind in kinds:
        for pat in PATTERNS + ("ok",):
            for shape in ("long", "short", "flat", "fresh"):
                for role in ("target", "untargeted"):
                    if shape == "fresh" and role == "untargeted":
                        continue
                    add(kindA=kind, shapeA=shape, roleA=role, measure="weight", quotes={"A": pat})
            add(kindA=kind, shapeA="held", roleA="target", measure="nr-contracts", quotes={"A": pat})
    # two contracts: A healthy and targeted, B broken (and vice versa)
    pats2 = PATTERNS if tier == "thorough" else ("never", "bidnan", "asknan", "dead")
    for ka in kinds:
        for kb in kinds if tier == "thorough" else (ka,):
            for pat in pats2:
                for sb in ("long", "short", "flat"):
                    for rb in ("target", "untargeted"):
                        add(kindA=ka, shapeA="held", roleA="target", kindB=kb, shapeB=sb, roleB=rb,
                            measure="weight", quotes={"B": pat})
                if tier == "thorough":
                    for sa in ("long", "short", "fresh"):
                        add(kindA=ka, shapeA=sa, roleA="target", kindB=kb, shapeB="held", roleB="target",
                            measure="weight", quotes={"A": pat})
                        add(kindA=ka, shapeA=sa, roleA="target", kindB=kb, shapeB="held", roleB="target",
                            measure="weight", quotes={"A": pat, "B": pat})
    # episode level: a future held through its expiry (June 2030 ES, expiry 2030-06-21)
    for side in ("long", "short"):
        out.append({"prop": "C13", "family": "E", "N": 4, "M": 0, "side": side, "t_lo": (2030, 6, 10), "t_hi": (2030, 7, 5),
                    "id": "C13/episode,side=%s" % side})
    if tier == "thorough":
        out.append({"prop": "C13", "family": "E", "N": 4, "M": 0, "side": "long", "latency": "sym", "t_lo": (2030, 6, 10),
                    "t_hi": (2030, 7, 5), "id": "C13/episode,side=long,latency=sym"})
    return out


ANCHORS = ["broker.py:Broker.holdings_values", "broker.py:Broker.net_liquidation_value",
           "broker.py:Broker.marking_to_market", "broker.py:Broker.rebalance", "trade.py:Trade.__init__",
           "exchange.py:LimitOrderBook.acq_price", "exchange.py:LimitOrderBook.terminate",
           "exchange.py:Exchange.process_EventContractDiscontinued"]
EXPECT_REACH = ["valuation", "failed-rebalance", "successful-rebalance", "episode", "dead-and-held"]
ASSUMPTIONS = _A + ["the missing-quote pattern of each contract is a concrete structure enumerated by the harness "
                    "(never quoted / bid NaN / ask NaN / both NaN / discontinued / discontinued then quoted); "
                    "symbolic values are never NaN", "NLV before trading > 0 where it is defined",
                    "interest rate book 0/0, so cash must be exactly unchanged by a failed rebalance"]
BOUNDS = {
    "quick": "one contract (every pattern x long/short/flat/never traded x targeted or not, both measures); two "
             "contracts of the same kind with the second one broken",
    "thorough": "two contracts of mixed kinds, either or both broken, all six patterns",
}
OUTSIDE = ["more than two non-cash contracts", "episodes with more than one contract losing its quote", "quotes going missing in the middle of a rebalance (not possible: "
           "no event is processed inside Broker.rebalance)"]
STUBS = []
DEADLINE_S = {"quick": 600, "thorough": 3600}
