"""C06 — interest on cash: compounding, sign, markup, floor, no double accrual
(family L; DESIGN §4 C06).  ``(1 + r) ** years`` is an Ackermannised uninterpreted
function with instantiated exponent-law axioms (symx.core.Ctx.power); a float replay on
the real ``**`` arbitrates every counterexample."""
from __future__ import annotations

from datetime import datetime, timedelta

from symx import core
from symx.core import SymReal, s_and, s_or, s_not, s_implies
from symx.timeproxy import sym_time_real, SymTime
from harness.ledger import Leg, quote

from tradingenv.broker.broker import Broker, EndOfEpisodeError

SECONDS_IN_YEAR = 365 * 24 * 60 * 60      # the property's year (the oracle's own constant)
from tradingenv.broker.fees import BrokerFees
from tradingenv.broker.rebalancing import Rebalancing
from tradingenv.contracts import Cash
from tradingenv.events import EventNBBO
from tradingenv.exchange import Exchange

PROPERTY = "C06"


def _mk(c, cash, rate, markup, with_margin, half_spread=0.0):
    ex = Exchange()
    quote(ex, Cash(), 1.0, 1.0)
    fee = BrokerFees(markup=markup)
    quote(ex, fee.interest_rate, rate - half_spread, rate + half_spread)
    br = Broker(exchange=ex, deposit=cash, fees=fee)
    if with_margin:
        leg = with_margin
        quote(ex, leg.contract, leg.bid, leg.ask)
        leg.install(br)
    return ex, br, fee


def _years(t_a, t_b):
    return (t_b - t_a).total_seconds() / SECONDS_IN_YEAR


def _expected_factor(c, cash, rate, markup, years):
    """Growth factor of the property's closed form over ``years`` (same pow function as
    the code: congruence ties the two applications together)."""
    if cash > 0:
        if rate - markup < 0:
            return 1.0              # positive balances are never charged
        return c.power(1 + (rate - markup), years)
    if cash < 0:
        return c.power(1 + (rate + markup), years)
    return 1.0


def harness(c, cfg):
    cash = c.real("cash", -1e9, 1e9)
    c.scale_hint(cash)
    rate = c.real("rate", -0.5, 0.25, hi_strict=True)
    markup = c.real("markup", 0, 1)
    c.assume(1 + rate - markup > 0)
    sign = cfg["sign"]
    if sign == "pos":
        c.assume(cash > 0)
    elif sign == "neg":
        c.assume(cash < 0)
    else:
        c.assume(cash == 0)
    t0 = sym_time_real(c, "t0")
    t1 = sym_time_real(c, "t1")
    t2 = sym_time_real(c, "t2")
    c.assume(s_and(t0 <= t1, t1 <= t2))
    month = timedelta(days=30)
    c.cex_hint(s_and(t1 - t0 >= month, t2 - t1 >= month, s_or(rate >= 0.01, rate <= -0.01),
                     s_or(cash >= 1, cash <= -1), cash <= 1e6, cash >= -1e6))
    leg = None
    if cfg.get("margin"):
        leg = Leg(c, "F", "margined", "held")
    scen = cfg["scenario"]
    hs = 0.0
    if cfg.get("two_sided"):
        # the rate contract quoted two-sided: the reference rate is the mid of the quote
        hs = c.real("rate_half_spread", 0, 0.05)
        c.assume(rate + hs < 0.25)

    if scen == "split":
        # one piece [t0,t2] versus two pieces [t0,t1],[t1,t2]
        _, b1, _ = _mk(c, cash, rate, markup, leg, hs)
        b1.accrued_interest(t0, True)
        i02 = b1.accrued_interest(t2, True)
        one = b1._holdings_quantity[b1.base_currency]
        _, b2, _ = _mk(c, cash, rate, markup, leg, hs)
        b2.accrued_interest(t0, True)
        i01 = b2.accrued_interest(t1, True)
        mid = b2._holdings_quantity[b2.base_currency]
        i12 = b2.accrued_interest(t2, True)
        two = b2._holdings_quantity[b2.base_currency]
        c.record("one", one)
        c.record("two", two)
        c.prove_eq("C06:one-piece=two-pieces", one, two)
        f = _expected_factor(c, cash, rate, markup, _years(t0, t2))
        c.prove_eq("C06:balance=cash*(1+rate-/+markup)^years(365d)", one, cash * f,
                   info={"years": _years(t0, t2)})
        c.prove_eq("C06:returned-amount=credited-amount", i02, one - cash)
        if sign == "pos":
            c.prove("C06:positive-cash-never-charged", s_and(one >= cash, mid >= cash, two >= mid))
        if leg is not None:
            c.prove_eq("C06:margin-earns-nothing", b1._holdings_margins[leg.contract],
                       leg.r * leg.m * abs(leg.q) * leg.p_last)
        c.reached("split")

    elif scen == "query":
        _, b, _ = _mk(c, cash, rate, markup, leg)
        b.accrued_interest(t0, True)
        q1 = b.accrued_interest(t1, False)
        c.prove_eq("C06:query-leaves-cash", b._holdings_quantity[b.base_currency], cash)
        c.prove("C06:query-leaves-accrual-clock", b._last_accrual == t0)
        q1b = b.accrued_interest(t1)
        c.prove_eq("C06:query-is-repeatable", q1b, q1)
        a1 = b.accrued_interest(t1, True)
        c.prove_eq("C06:query=amount-next-accrual-credits", a1, q1)
        c.prove_eq("C06:accrual-credits-returned-amount", b._holdings_quantity[b.base_currency], cash + a1)
        c.prove("C06:accrual-advances-clock", b._last_accrual == t1)
        bal = b._holdings_quantity[b.base_currency]
        again = b.accrued_interest(t1, True)
        c.prove_eq("C06:same-instant-accrual-adds-nothing", again, 0.0)
        c.prove_eq("C06:same-instant-accrual-leaves-cash", b._holdings_quantity[b.base_currency], bal)
        c.record("q1", q1)
        # a time earlier than the last accrual is rejected (and changes nothing)
        if t0 < t1:
            try:
                b.accrued_interest(t0, True)
                rejected = False
            except ValueError:
                rejected = True
            c.prove("C06:earlier-time-is-rejected", rejected)
            c.prove_eq("C06:rejected-call-leaves-cash", b._holdings_quantity[b.base_currency], bal)
            c.reached("rejected")
        c.reached("query")

    elif scen == "rebalance":
        # accrual through the rebalancing path: a rebalance that trades nothing
        _, b, _ = _mk(c, cash, rate, markup, None)
        r0 = Rebalancing(time=t0)
        b.rebalance(r0)
        r1 = Rebalancing(time=t1)
        peek = b.accrued_interest(t1, False)
        if not (t0 < t1):
            c.out_of_scope("two rebalances need distinct timestamps")
        b.rebalance(r1)
        c.prove_eq("C06:rebalance-records-interest", r1.profit_on_idle_cash, peek)
        f = _expected_factor(c, cash, rate, markup, _years(t0, t1))
        c.prove_eq("C06:rebalance-path-balance", b._holdings_quantity[b.base_currency], cash * f)
        c.prove("C06:empty-rebalance-trades-nothing", len(r1.trades) == 0)
        c.prove_eq("C06:first-rebalance-accrues-nothing", r0.profit_on_idle_cash, 0.0)
        c.record("bal", b._holdings_quantity[b.base_currency])
        c.reached("rebalance")

    elif scen == "rate-change":
        # piecewise-constant rate: accrue at t1, new rate, accrue at t2
        ex, b, fee = _mk(c, cash, rate, markup, None)
        rate2 = c.real("rate2", -0.5, 0.25, hi_strict=True)
        c.assume(1 + rate2 - markup > 0)
        b.accrued_interest(t0, True)
        b.accrued_interest(t1, True)
        quote(ex, fee.interest_rate, rate2, rate2)
        b.accrued_interest(t2, True)
        f1 = _expected_factor(c, cash, rate, markup, _years(t0, t1))
        f2 = _expected_factor(c, cash, rate2, markup, _years(t1, t2))
        c.prove_eq("C06:piecewise-constant-rate", b._holdings_quantity[b.base_currency], cash * f1 * f2)
        c.record("bal", b._holdings_quantity[b.base_currency])
        c.reached("rate-change")
    else:
        raise ValueError(scen)


def configs(tier):
    out = []

    def add(**kw):
        kw["id"] = "C06/" + ",".join("%s=%s" % kv for kv in sorted(kw.items()))
        out.append(kw)

    for sign in ("pos", "neg", "zero"):
        add(scenario="split", sign=sign)
        add(scenario="query", sign=sign)
    add(scenario="rebalance", sign="pos")
    add(scenario="split", sign="pos", two_sided=True)
    add(scenario="split", sign="neg", two_sided=True)
    add(scenario="split", sign="pos", margin=True)
    add(scenario="split", sign="neg", margin=True)
    if tier == "thorough":
        for sign in ("pos", "neg"):
            add(scenario="rate-change", sign=sign)
            add(scenario="query", sign=sign, margin=True)
    return out


ANCHORS = ["broker.py:Broker.accrued_interest", "broker.py:Broker.rebalance"]
EXPECT_REACH = ["split", "query", "rejected", "rebalance"]
ASSUMPTIONS = [
    "python floats modelled as reals",
    "(1+r)**years is an uninterpreted function applied at finitely many points per path, constrained by "
    "instantiated axioms: positivity, b^0=1, 1^x=1, b^1=b, sign of b^x-1, monotonicity in x, congruence, and "
    "b^x*b^y=b^(x+y); any counterexample is replayed with the real ** on floats",
    "reference rate in [-0.5, 0.25), markup in [0, 1], 1 + rate - markup > 0, |cash| <= 1e9; when the rate contract is "
    "quoted two-sided (bid < ask, 'two_sided' configurations) the reference rate is the mid of the quote",
    "accrual instants are real-valued microsecond counts with 2000-01-01 <= t0 <= t1 <= t2 < 2100-01-01 "
    "(interval lengths from 0 to a century); the accrual clock has been started by a first accrual at t0 "
    "(the first call on a fresh broker only sets the clock: pinned by the repository's own test)",
]
BOUNDS = {"quick": "<= 3 accrual instants, <= 2 query-only calls, cash of each sign, optional margined position; "
                   "accrual via Broker.accrued_interest and via an empty Broker.rebalance",
          "thorough": "plus a rate change between accruals and query-only calls with a margined position"}
OUTSIDE = ["IEEE rounding of **", "more than two sub-intervals (by induction on the number of splits: each split "
           "step is the checked two-piece identity)"]
STUBS = ["SymReal.__pow__ -> Ackermannised pow with instantiated axioms (no edit of /repo)"]
DEADLINE_S = {"quick": 600, "thorough": 1800}
