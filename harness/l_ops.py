"""Family L harness shared by C01 (self-financing) and C05 (margin invariant / NLV
decomposition): one ledger operation from an arbitrary INV state.  cfg['prop'] selects
which property's obligations are emitted (the exploration is the same)."""
from __future__ import annotations

from symx.core import s_or, s_and
from harness.ledger import (Leg, build_account, oracle_nlv, post_invariant, quote, EPS, Q_HI,
                            P_LO, P_HI)
from tradingenv.broker.trade import Trade
from tradingenv.broker.broker import EndOfEpisodeError


def _legs(c, cfg):
    legs = [Leg(c, "A", cfg["kindA"], cfg["shapeA"], spec=cfg.get("specA", "user"))]
    if cfg.get("kindB"):
        legs.append(Leg(c, "B", cfg["kindB"], cfg.get("shapeB", "held")))
    return legs


def _snapshot(br, leg):
    k = leg.contract
    return (br._holdings_quantity.get(k, 0.0), br._holdings_margins.get(k, 0.0),
            br._last_marking_to_market_price.get(k))


def _c05_after_valuation(c, br, legs, nlv, label):
    """C05 clauses at an observation point (after a valuation)."""
    cash = br._holdings_quantity[br.base_currency]
    total = cash
    for leg in legs:
        if leg.shape == "fresh" and leg.contract not in br._holdings_quantity:
            continue
        q = br._holdings_quantity[leg.contract]
        post_invariant(c, br, leg, q, "C05:%s:%s" % (label, leg.tag))
        total = total + br._holdings_margins[leg.contract]
        if leg.kind == "spot" and q != 0:
            total = total + q * leg.m * leg.liq(q)
    c.prove_eq("C05:%s:cash+margins+paid-positions=NLV" % label, total, nlv)


def _c05_weights(c, br, legs, nlv, label):
    if not (nlv > 0):
        return
    # the snapshot object handed to the track record reports the same account
    ctxt = br.context()
    c.prove_eq("C05:%s:context.nlv" % label, ctxt.nlv, nlv)
    for leg in legs:
        if leg.contract in br._holdings_quantity:
            c.prove_eq("C05:%s:context.nr_contracts" % label, ctxt.nr_contracts.get(leg.contract, 0.0),
                       br._holdings_quantity[leg.contract])
            c.prove_eq("C05:%s:context.margins" % label, ctxt.margins.get(leg.contract, 0.0),
                       br._holdings_margins.get(leg.contract, 0.0))
            q = br._holdings_quantity[leg.contract]
            c.prove_eq("C05:%s:context.values=q*liq*m" % label, ctxt.values.get(leg.contract, 0.0),
                       q * leg.liq(q) * leg.m if q != 0 else 0.0)
    w = br.holdings_weights()
    for leg in legs:
        if leg.contract in br._holdings_quantity:
            q = br._holdings_quantity[leg.contract]
            expect = q * leg.liq(q) * leg.m / nlv if q != 0 else 0.0
            c.prove_eq("C05:%s:weight_%s=q*liq*m/NLV" % (label, leg.tag), w[leg.contract], expect)


def harness(c, cfg):
    prop = cfg["prop"]
    legs = _legs(c, cfg)
    A = legs[0]
    ex, br, fee, cash0 = build_account(c, legs)
    op = cfg["op"]

    # ---- valuation of the arbitrary INV pre-state
    if cfg.get("novalue"):
        # the operation follows a quote update directly, with no valuation / mark-to-market in
        # between: the pre-state NLV is the closed form (proved equal to the valuation in the
        # other configurations), the broker is not touched before the operation
        nlv0 = oracle_nlv(cash0, legs)
        c.record("nlv0", nlv0)
    else:
        nlv0 = br.net_liquidation_value(False)
        c.record("nlv0", nlv0)
    if cfg.get("novalue"):
        if prop == "C05" and op == "weights":
            pass
    elif prop == "C01":
        c.prove_eq("C01:valuation=closed-form", nlv0, oracle_nlv(cash0, legs))
    else:
        # the sweep moves value between margin and cash, it neither creates nor destroys any
        c.prove_eq("C05:valuation:excess-and-shortfall-swept-to-and-from-cash(value-conserved)", nlv0,
                   oracle_nlv(cash0, legs))
        _c05_after_valuation(c, br, legs, nlv0, "valuation")
        _c05_weights(c, br, legs, nlv0, "valuation")

    if op == "trade":
        q0 = A.q
        dq = c.real("dq", -Q_HI, Q_HI)
        c.assume(dq != 0)
        q1 = q0 + dq
        c.assume(s_or(q1 == 0, q1 >= EPS, q1 <= -EPS))
        others = [(leg, _snapshot(br, leg)) for leg in legs[1:]]
        trade = Trade(None, A.contract, dq, A.bid, A.ask, fee)
        br.transact(trade)
        if prop == "C05":
            # "for the traded contract immediately after any trade"
            post_invariant(c, br, A, q1, "C05:after-trade:A")
            for leg, snap in others:
                now = _snapshot(br, leg)
                c.prove_eq("C05:bystander-position-untouched", now[0], snap[0])
                c.prove_eq("C05:bystander-margin-untouched", now[1], snap[1])
        nlv1 = br.net_liquidation_value(False)
        c.record("nlv1", nlv1)
        if prop == "C01":
            acq = A.ask if dq > 0 else A.bid
            commission = fee.fixed + fee.proportional * abs(acq * dq * A.m)
            v1 = q1 * A.liq(q1) if q1 != 0 else 0.0
            v0 = q0 * A.liq(q0) if q0 != 0 else 0.0
            expected = -commission + A.m * (v1 - v0 - dq * acq)
            c.prove_eq("C01:trade-delta", nlv1 - nlv0, expected, scale=(nlv0, nlv1),
                       info={"q0": q0, "dq": dq, "bid": A.bid, "ask": A.ask, "m": A.m})
            c.record("delta", nlv1 - nlv0)
        else:
            A.q_post = q1
            _c05_after_valuation(c, br, legs, nlv1, "after-trade+valuation")
            _c05_weights(c, br, legs, nlv1, "after-trade+valuation")
        c.reached("trade")

    elif op == "quote":
        bid2 = c.real("bid2_A", P_LO, P_HI)
        ask2 = c.real("ask2_A", P_LO, P_HI)
        c.assume(bid2 <= ask2)
        q = A.q
        liq_old = A.liq(q) if q != 0 else 0.0
        quote(ex, A.contract, bid2, ask2)
        A.bid, A.ask = bid2, ask2
        nlv1 = br.net_liquidation_value(False)
        c.record("nlv1", nlv1)
        if prop == "C01":
            liq_new = A.liq(q) if q != 0 else 0.0
            expected = q * A.m * (liq_new - liq_old) if q != 0 else 0.0
            c.prove_eq("C01:quote-delta", nlv1 - nlv0, expected, scale=(nlv0, nlv1))
        else:
            _c05_after_valuation(c, br, legs, nlv1, "after-quote+valuation")
            _c05_weights(c, br, legs, nlv1, "after-quote+valuation")
        c.reached("quote")

    elif op == "weights":
        # weights asked right after a quote move, before anything else values the account
        if not (nlv0 > 0):
            c.out_of_scope("ruin")
        w = br.holdings_weights()
        for leg in legs:
            if leg.shape == "fresh":
                continue
            q = leg.q
            expect = q * leg.liq(q) * leg.m / nlv0 if q != 0 else 0.0
            c.prove_eq("C05:weights-first:weight_%s=q*liq*m/NLV" % leg.tag, w[leg.contract], expect, scale=(nlv0,))
        nlv1 = br.net_liquidation_value(False)
        c.prove_eq("C05:weights-first:same-nlv-afterwards", nlv1, nlv0)
        _c05_after_valuation(c, br, legs, nlv1, "weights-first")
        c.record("nlv1", nlv1)
        c.reached("weights")

    elif op == "mtm":
        br.marking_to_market()
        if prop == "C05":
            _c05_after_valuation(c, br, legs, nlv0, "after-mark-to-market")
        nlv1 = br.net_liquidation_value(False)
        br.holdings_values()
        br.holdings_values("liquidation")
        br.marking_to_market(A.contract)
        nlv2 = br.net_liquidation_value(False)
        c.record("nlv1", nlv1)
        if prop == "C01":
            c.prove_eq("C01:mark-to-market-is-nlv-neutral", nlv1, nlv0)
            c.prove_eq("C01:valuation-is-idempotent", nlv2, nlv0)
        else:
            _c05_after_valuation(c, br, legs, nlv2, "after-repeated-valuation")
        c.reached("mtm")
    else:
        raise ValueError(op)


def configs_for(prop, tier):
    out = []

    def add(**kw):
        kw["prop"] = prop
        kw["id"] = "%s/" % prop + ",".join("%s=%s" % (k, v) for k, v in sorted(kw.items()) if k != "prop")
        out.append(kw)

    for kind in ("spot", "margined"):
        for shape in ("fresh", "flat", "long", "short"):
            add(op="trade", kindA=kind, shapeA=shape)
        for shape in ("long", "short"):
            add(op="quote", kindA=kind, shapeA=shape)
            add(op="mtm", kindA=kind, shapeA=shape)
        add(op="mtm", kindA=kind, shapeA="flat")
    for spec, kind in (("ETF", "spot"), ("ES", "margined"), ("ZN", "margined")):
        add(op="trade", kindA=kind, shapeA="held", specA=spec)
    # a second contract of the other kind held alongside (mixed fully-paid / margined account)
    add(op="trade", kindA="margined", shapeA="held", kindB="spot", shapeB="held")
    add(op="trade", kindA="spot", shapeA="held", kindB="margined", shapeB="held")
    add(op="quote", kindA="margined", shapeA="long", kindB="margined", shapeB="short")
    add(op="mtm", kindA="margined", shapeA="short", kindB="margined", shapeB="long")
    # the same operations directly after a quote update (no valuation in between)
    for kind in ("spot", "margined"):
        for shape in ("flat", "long", "short"):
            add(op="trade", kindA=kind, shapeA=shape, novalue=True)
        add(op="quote", kindA=kind, shapeA="held", novalue=True)
        if prop == "C05":
            add(op="weights", kindA=kind, shapeA="long", novalue=True)
            add(op="weights", kindA=kind, shapeA="short", novalue=True)
    if tier == "thorough":
        for kind in ("spot", "margined"):
            for kb in ("spot", "margined"):
                for shape in ("fresh", "flat", "long", "short"):
                    for sb in ("long", "short", "flat"):
                        add(op="trade", kindA=kind, shapeA=shape, kindB=kb, shapeB=sb)
                for shape in ("long", "short"):
                    for sb in ("long", "short"):
                        add(op="quote", kindA=kind, shapeA=shape, kindB=kb, shapeB=sb)
                        add(op="mtm", kindA=kind, shapeA=shape, kindB=kb, shapeB=sb)
    return out
