"""C08 — decision-to-execution timing: FIFO delay and latency pricing (family E)."""
from __future__ import annotations

import numpy as np

from symx import core
from harness.episode import Episode, ASSUMPTIONS as _A
from tradingenv.events import EventNBBO
from tradingenv.spaces import BoxPortfolio

PROPERTY = "C08"


def _last_quote(c, ep, contract, cutoff):
    """The quote of ``contract`` with the greatest (stamp, insertion index) among those
    stamped <= cutoff — decided by forking on the symbolic stamps."""
    best = None
    for n, ev in enumerate(ep.events):
        if not isinstance(ev, EventNBBO) or ev.contract is not contract:
            continue
        if not bool(ev.time <= cutoff):
            continue
        if best is None:
            best = (n, ev)
        else:
            bn, bev = best
            if bool(ev.time > bev.time) or (bool(ev.time == bev.time) and n > bn):
                best = (n, ev)
    return None if best is None else best[1]


def harness(c, cfg):
    ep = Episode(c, cfg)
    for episode in range(cfg.get("episodes", 1)):
        _one_episode(c, cfg, ep)
        c.reached("episode%d" % (episode + 1))


def _one_episode(c, cfg, ep):
    env = ep.env
    d = cfg.get("delay", 0)
    env.reset()
    submitted = []
    executed = []
    k = 0
    while not env._done and k < ep.N + 1:
        a = ep.action(k) if not cfg.get("sells") else ep.action(ep.N - k)
        submitted.append(a)
        _, r, done, info = env.step(a)
        k += 1
        reb = info.get("_rebalancing")
        c.prove("C08:every-step-executes-one-rebalancing", reb is not None)
        executed.append(reb)
        # ---- the allocation executed at step k is the one submitted d decisions earlier
        if k <= d:
            expect = {}
        else:
            act = submitted[k - d - 1]
            if isinstance(ep.space, BoxPortfolio):
                expect = {con.symbol: float(w) for con, w in zip(ep.contracts, act) if w != 0}
            else:
                expect = {con.symbol: float(w) for con, w in zip(ep.contracts, ep.allocs[int(act)]) if w != 0}
        got = {con.symbol: float(w) for con, w in reb.allocation.items()}
        c.prove("C08:executed-allocation=decision-submitted-d-steps-earlier(null-for-first-d)", got == expect,
                info={"step": k, "delay": d, "got": got, "expected": expect})
        # ---- pricing: last quotes stamped <= T_{k-1} + latency
        t_prev = ep.T[k - 1]
        if isinstance(ep.L, (int, float)) and ep.L == 0:
            cutoff = t_prev
        else:
            # latency in seconds -> compare via total_seconds to stay exact
            cutoff = None
        for tr in reb.trades:
            con = [x for x in ep.contracts if x.symbol == tr.contract.symbol][0]
            if cutoff is not None:
                q = _last_quote(c, ep, con, cutoff)
            else:
                q = _last_quote_latency(c, ep, con, t_prev, ep.L)
            want = q.ask_price if tr.quantity > 0 else q.bid_price
            c.prove("C08:trade-priced-at-last-quote<=t+latency", tr.acq_price == want,
                    info={"step": k, "contract": con.symbol, "acq": tr.acq_price, "expected": want,
                          "quote": q._tag})
        c.prove("C08:execution-stamped-within[t,t+latency]",
                core.s_and(reb.time >= t_prev, (reb.time - t_prev).total_seconds() <= ep.L),
                info={"time": reb.time, "t": t_prev})
    c.record("executed", [[con.symbol + "=%s" % w for con, w in reb.allocation.items()] for reb in executed])
    c.record("prices", [[t.acq_price for t in reb.trades] for reb in executed])
    c.prove("C08:one-execution-per-decision", len(executed) == len(submitted))
    c.reached("episode")


def _last_quote_latency(c, ep, contract, t_prev, L):
    best = None
    for n, ev in enumerate(ep.events):
        if not isinstance(ev, EventNBBO) or ev.contract is not contract:
            continue
        if not (bool(ev.time <= t_prev) or bool((ev.time - t_prev).total_seconds() <= L)):
            continue
        if best is None:
            best = (n, ev)
        else:
            bn, bev = best
            if bool(ev.time > bev.time) or (bool(ev.time == bev.time) and n > bn):
                best = (n, ev)
    return best[1]


def configs(tier):
    out = []

    def add(**kw):
        kw["id"] = "C08/" + ",".join("%s=%s" % kv for kv in sorted(kw.items()))
        out.append(kw)

    for d in (0, 1, 2):
        add(N=4, M=1, delay=d, latency="sym", spread=2.0, free_kinds=["quote"])
    add(N=4, M=1, delay=1, latency="zero", spread=2.0, free_kinds=["quote"], sells=True)
    add(N=4, M=0, delay=1, latency="zero", space="discrete")
    add(N=4, M=0, delay=0, latency="zero", space="discrete")
    add(N=4, M=1, delay=1, latency="sym", spread=2.0, free_kinds=["quote"], insertion="free-first")
    add(N=3, M=1, delay=0, latency="sym", spread=2.0, free_kinds=["quote"], episodes=2)     # a second episode too
    add(N=4, M=1, delay=1, latency="sym", spread=2.0, free_kinds=["quote"], episodes=2)
    # longer delays need a longer grid; without extra quotes these are cheap
    add(N=6, M=0, delay=3, latency="zero", spread=2.0)
    add(N=6, M=0, delay=3, latency="zero", space="discrete")
    add(N=6, M=0, delay=4, latency="zero", spread=2.0, sells=True)
    if tier == "thorough":
        for d in (0, 1, 2, 3):
            if d in (0, 3):      # two extra quotes: 100 k paths per delay (measured), two delays kept
                add(N=5, M=2, delay=d, latency="sym", spread=2.0, free_kinds=["quote", "quote"])
            add(N=5, M=1, delay=d, latency="sym", spread=2.0, free_kinds=["quote"], sells=True)
            add(N=5, M=0, delay=d, latency="zero", space="discrete")
        add(N=4, M=2, delay=1, latency="sym", spread=2.0, free_kinds=["quote", "quote"], two_contracts=True)
    return out


ANCHORS = ["env.py:TradingEnv.step", "env.py:TradingEnv.reset", "spaces.py:PortfolioSpace.null_action",
           "spaces.py:PortfolioSpace.make_rebalancing_request", "transmitter.py:Transmitter._create_partitions",
           "env.py:TradingEnv._process_latent_events"]
EXPECT_REACH = ["episode", "episode2"]
ASSUMPTIONS = _A + ["bid/ask of every quote differ by a concrete spread of 2 so that the execution side is visible"]
BOUNDS = {"quick": "grid of 4 timesteps (3 executions), <= 1 extra quote placed by the solver around the latency "
                   "boundary, delays 0-2, Box and Discrete spaces; grid of 6 without extra quotes for delays 3-4",
          "thorough": "grid of 5 timesteps, <= 2 extra quotes, delays 0-3, two contracts"}
OUTSIDE = ["delays > 3, grids > 5", "AsynchronousTransmitter"]
STUBS = []
DEADLINE_S = {"quick": 900, "thorough": 5400}
TASK_S = 8.0
