"""C04 — event delivery: complete, exactly once, on time, in timestamp order (family E)."""
from __future__ import annotations

from symx import core
from symx.core import s_and, s_or, s_not, s_implies, s_iff
from harness.episode import Episode, ASSUMPTIONS as _A

PROPERTY = "C04"
MARKET = ("NBBO", "Ping", "Disc")


def run_episode(c, ep, tagprefix=""):
    """reset + step until done; returns (segments, outputs).  segments[k] = slice of the
    recorder log produced by reset (k=0) / the k-th step."""
    env, log = ep.env, ep.log
    start = len(log)
    marks = [start]
    env.reset(fold=ep.fold_name)
    marks.append(len(log))
    k = 0
    outs = []
    while not env._done and k < ep.N + 2:
        _, r, done, info = env.step(ep.action(k))
        outs.append((r, done))
        marks.append(len(log))
        k += 1
    segs = [log[marks[i]:marks[i + 1]] for i in range(len(marks) - 1)]
    return segs, outs


def check_episode(c, ep, segs, label):
    N = ep.N
    T = ep.T
    cfg = ep.cfg
    # ---- which grid points form the episode (fold filter), decided by forking
    idx = []
    for i in range(N):
        inside = True
        if ep.S is not None:
            inside = bool(ep.S <= T[i]) and bool(T[i] <= ep.Eend)
        if inside:
            idx.append(i)
    if not idx:
        c.out_of_scope("fold contains no grid point")
    s, last = idx[0], idx[-1]
    c.prove(label + "steps=number-of-grid-points-in-fold-minus-one", len(segs) - 1 == last - s,
            info={"segments": len(segs), "s": s, "last": last})
    flat = [e for seg in segs for e in seg]
    # ---- (a) expected delivery point of every market event
    for n_ins, ev in enumerate(ep.events):
        g = ep.grid_index(ev.time)
        seen = [(si, e) for si, seg in enumerate(segs) for e in seg if e["event"] is ev]
        if g is None or g > last:
            c.prove(label + "event-after-episode-end-never-delivered", len(seen) == 0, info=ev._tag)
            continue
        if g < s:
            # history: replayed at reset (all / within warm-up / none under markov reset)
            if ep.markov:
                expect = False
            elif ep.warmup is not None:
                expect = bool(T[g] >= T[s] - ep.warmup)
            else:
                expect = True
            if expect:
                c.prove(label + "history-event-replayed-once-at-reset",
                        len(seen) == 1 and seen[0][0] == 0, info={"tag": ev._tag, "seen": [x[0] for x in seen]})
            else:
                c.prove(label + "history-event-outside-horizon-not-replayed", len(seen) == 0, info=ev._tag)
            continue
        if ep.markov and g == 0 and bool(ev.time < T[0]):
            continue        # stamped before the whole grid under markov reset: not claimed either way
        step = g - s
        c.prove(label + "event-delivered-exactly-once-at-first-timestep>=stamp",
                len(seen) == 1 and seen[0][0] == step,
                info={"tag": ev._tag, "expected_step": step, "seen": [x[0] for x in seen]})
        if len(seen) == 1 and step >= 1:
            # (d) before the pending execution iff 0 < stamp - T_prev <= latency
            e = seen[0][1]
            dt = (ev.time - T[g - 1]).total_seconds()
            latent = bool(dt <= ep.L)
            before = (e["nreb"] == step - 1)
            c.prove(label + "applied-before-execution-iff-within-latency", before == latent,
                    info={"tag": ev._tag, "nreb": e["nreb"], "step": step, "latent": latent})
    # ---- (b) non-decreasing stamps over the whole log, ties in insertion order
    ins = {id(ev): n for n, ev in enumerate(ep.events)}
    for a, b in zip(flat, flat[1:]):
        c.prove(label + "stamps-non-decreasing", a["time"] <= b["time"],
                info={"first": [a["kind"], a["tag"], a["time"]], "then": [b["kind"], b["tag"], b["time"]]})
        if a["kind"] in MARKET and b["kind"] in MARKET and id(a["event"]) in ins and id(b["event"]) in ins:
            if ins[id(a["event"])] > ins[id(b["event"])]:
                c.prove(label + "ties-in-insertion-order", a["time"] != b["time"],
                        info={"first": a["tag"], "then": b["tag"]})
    # ---- (c) the clock at each callback; environment notifications carry the latest market stamp
    latest = None
    for e in flat:
        c.prove(label + "env.now()=stamp-of-event-being-delivered", e["now"] == e["time"],
                info={"kind": e["kind"], "tag": e["tag"], "now": e["now"], "time": e["time"]})
        if e["kind"] in MARKET:
            latest = e["time"]
        elif latest is not None:
            c.prove(label + "notification-stamped-with-latest-market-event", e["time"] == latest,
                    info={"kind": e["kind"], "time": e["time"], "latest": latest})
    # ---- a new-date notification comes just before the first event of each new calendar date,
    #      and only then (events.py: "Triggered just before the first event of the date is processed")
    prev = None
    pending = 0
    for e in flat:
        if e["kind"] == "NewDate":
            pending += 1
            continue
        if prev is not None:
            changed = bool(prev["time"].date() != e["time"].date())
            c.prove(label + "new-date-notification-iff-the-calendar-date-changes", pending == (1 if changed else 0),
                    info={"before": [e["kind"], e["tag"], e["time"]], "after": [prev["kind"], prev["tag"], prev["time"]],
                          "notifications": pending})
        prev = e
        pending = 0
    # ---- structure of environment notifications
    kinds0 = [e["kind"] for e in segs[0]]
    c.prove(label + "reset-ends-with-one-EventReset", kinds0.count("Reset") == 1 and
            (kinds0[-1] == "Reset" or kinds0[-2:] == ["Reset", "Done"]), info=kinds0)
    for si, seg in enumerate(segs[1:], 1):
        ks = [e["kind"] for e in seg]
        c.prove(label + "each-step-sends-one-EventStep", ks.count("Step") == 1, info=ks)
    ksl = [e["kind"] for e in segs[-1]]
    c.prove(label + "EventDone-sent-once-at-the-end", sum(k.count("Done") for k in [[e["kind"] for e in sg] for sg in segs]) == 1
            and ksl[-1] == "Done", info=ksl)
    c.record(label + "log", [[e["kind"], e["tag"], e["time"], e["nreb"]] for e in flat])
    if cfg.get("more_observers"):
        # every observer receives exactly the events of the types it subscribed to, in the same order
        pings = [e["event"] for e in ep.log if e["kind"] == "Ping"]
        nbbos = [e["event"] for e in ep.log if e["kind"] == "NBBO"]
        c.prove(label + "observer-of-one-type-gets-exactly-that-type",
                len(ep.ping_log) == len(pings) and all(a is b for a, b in zip(ep.ping_log, pings)),
                info={"got": [getattr(x, "_tag", type(x).__name__) for x in ep.ping_log]})
        c.prove(label + "observer-of-one-type-gets-exactly-that-type",
                len(ep.nbbo_log) == len(nbbos) and all(a is b for a, b in zip(ep.nbbo_log, nbbos)),
                info={"got": [getattr(x, "_tag", type(x).__name__) for x in ep.nbbo_log]})


def harness(c, cfg):
    ep = Episode(c, cfg)
    if ep.S is not None and not any(bool(ep.S <= t) and bool(t <= ep.Eend) for t in ep.T):
        c.out_of_scope("the fold contains no grid point (a configuration error)")
    seq = cfg.get("fold_sequence")
    if seq:
        # several episodes on one environment, each on another (overlapping) fold
        for n, name in enumerate(seq):
            ep.use_fold(name)
            if not any(bool(ep.S <= t) and bool(t <= ep.Eend) for t in ep.T):
                c.out_of_scope("a fold contains no grid point")
            segs, outs = run_episode(c, ep)
            check_episode(c, ep, segs, "C04:fold%d:" % n)
        c.reached("episode")
        c.reached("fold-sequence")
        return
    segs, outs = run_episode(c, ep)
    check_episode(c, ep, segs, "C04:")
    c.reached("episode")
    if cfg.get("episodes", 1) == 2:
        segs2, outs2 = run_episode(c, ep)
        check_episode(c, ep, segs2, "C04:again:")
        c.reached("second-episode")


def configs(tier):
    out = []

    def add(**kw):
        kw["id"] = "C04/" + ",".join("%s=%s" % kv for kv in sorted(kw.items()))
        out.append(kw)

    for lat in ("zero", "sym"):
        add(N=3, M=1, latency=lat, free_kinds=["quote"])
        add(N=3, M=1, latency=lat, free_kinds=["ping"], insertion="free-first")
    add(N=3, M=1, latency="sym", free_kinds=["quote"], fold="sym")
    add(N=3, M=1, latency="sym", free_kinds=["ping"], markov=True, fold="sym")
    add(N=3, M=1, latency="sym", free_kinds=["ping"], warmup="sym", fold="sym")
    add(N=3, M=1, latency="zero", free_kinds=["quote"], episodes=2)
    add(N=3, M=1, latency="sym", free_kinds=["ping"], episodes=2)
    add(N=3, M=0, latency="zero", grid_perm=[2, 0, 1, 0])
    add(N=3, M=2, latency="zero", free_kinds=["quote", "ping"])
    add(N=3, M=2, latency="sym", free_kinds=["ping", "quote"], more_observers=True, episodes=2)
    add(N=3, M=0, latency="zero", tied=20)          # > 16 events, 20 of them with one common stamp
    # episodes on different, overlapping folds of one environment (with and without markov reset)
    add(N=3, M=0, latency="zero", fold="two", fold_sequence=["test-set", "training-set"], markov=True)
    add(N=3, M=0, latency="zero", fold="two", fold_sequence=["training-set", "test-set"], markov=True)
    add(N=3, M=1, latency="sym", free_kinds=["ping"], fold="two", fold_sequence=["test-set", "training-set", "test-set"])
    if tier == "thorough":
        add(N=3, M=2, latency="sym", free_kinds=["quote", "ping"])
        add(N=3, M=2, latency="sym", free_kinds=["ping", "ping"], insertion="free-first")
        add(N=4, M=1, latency="sym", free_kinds=["quote"])
        add(N=4, M=2, latency="sym", free_kinds=["quote", "ping"])
        add(N=3, M=3, latency="zero", free_kinds=["quote", "ping", "ping"])
        add(N=4, M=1, latency="sym", free_kinds=["ping"], fold="sym")
        add(N=4, M=1, latency="sym", free_kinds=["ping"], fold="sym", markov=True)
        add(N=4, M=1, latency="sym", free_kinds=["ping"], fold="sym", warmup="sym")
        add(N=3, M=2, latency="sym", free_kinds=["quote", "ping"], fold="sym", warmup="sym")
        add(N=3, M=1, latency="sym", free_kinds=["quote"], fold="two")
        add(N=3, M=1, latency="sym", free_kinds=["quote"], episodes=2, fold="sym")
        add(N=3, M=1, latency="sym", grid_perm=[1, 2, 0, 1], free_kinds=["ping"])
        add(N=3, M=1, latency="sym", two_contracts=True, free_kinds=["quote"])
    return out


ANCHORS = ["transmitter.py:Transmitter._create_partitions", "transmitter.py:Transmitter._reset",
           "transmitter.py:Transmitter._next", "env.py:TradingEnv.notify", "env.py:TradingEnv._process_latent_events",
           "env.py:TradingEnv._process_nonlatent_events", "events.py:IEvent.notify", "env.py:TradingEnv.reset",
           "env.py:TradingEnv.step"]
EXPECT_REACH = ["episode", "second-episode", "fold-sequence"]
ASSUMPTIONS = _A + ["under markov reset, events stamped before the whole grid are not claimed either way"]
BOUNDS = {"quick": "grids of 3 timesteps, <= 2 freely placed events (quotes / custom events), symbolic latency, "
                   "symbolic fold window, warm-up horizon and markov reset, unsorted+duplicated grid input, two "
                   "episodes on one environment; every step of the episode is run",
          "thorough": "grids of 3-4 timesteps with <= 3 free events, two folds, two contracts"}
OUTSIDE = ["grids longer than 4 timesteps / more than 3 free events", "AsynchronousTransmitter (live mode)",
           "episode_length sampling (C15)"]
STUBS = []
DEADLINE_S = {"quick": 900, "thorough": 5400}
TASK_S = 8.0
