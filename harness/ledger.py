"""Family L (DESIGN §3.1): one ledger operation from an arbitrary valid account.

Builds the *real* Exchange / Broker objects in an arbitrary state that satisfies the
representation invariant INV, from named symbolic inputs.  Works in symbolic and in
concrete mode (the inputs are then plain floats).
"""
from __future__ import annotations

from symx import core
from symx.core import SymReal, s_and, s_or

from tradingenv.broker.broker import Broker
from tradingenv.broker.fees import BrokerFees
from tradingenv.broker.trade import Trade
from tradingenv.contracts import AbstractContract, Cash, ETF, ES, ZN, Rate
from tradingenv.events import EventNBBO
from tradingenv.exchange import Exchange

EPS = 1.001e-7      # just outside the Broker's default snap band |q| < 1e-7 (the harness never passes
                    # epsilon; the 0.1% margin keeps float replays off the band's edge)
P_LO, P_HI = 1e-3, 1e6
Q_HI = 1e6

ASSUMPTIONS = [
    "python floats are modelled as mathematical reals (rounding is outside the claim)",
    "prices in [1e-3, 1e6], |positions| and |trades| <= 1e6, multiplier in [1e-3, 1e4], "
    "margin requirement in (0, 1], fixed fee in [0, 1e3], proportional fee in [0, 1], "
    "|cash| <= 1e9 (magnitude bounds keep float replays meaningful)",
    "pre- and post-trade positions are 0 or at least 1.001e-7 in absolute value (the broker's "
    "documented snap-to-zero band is excluded); the broker is built with its default epsilon",
    "quotes satisfy 0 < bid <= ask; missing quotes are concrete NaN patterns (C13 only)",
    "pre-state satisfies INV: margin_i = r_i*m_i*|q_i|*last_mark_i for a margined contract "
    "that has been traded, 0 otherwise",
]


def user_contract(symbol, kind, multiplier, margin_req=None):
    """A user-defined AbstractContract subclass (DESIGN §3.1) with the given spec."""
    if kind == "spot":
        cr, mr = 1.0, 0.0
    elif kind == "margined":
        cr, mr = 0.0, margin_req
    else:
        raise ValueError(kind)

    class UserContract(AbstractContract):
        symbol = None
        multiplier = None
        cash_requirement = None
        margin_requirement = None

        def __repr__(self):
            return "UserContract(%s,%s)" % (self.symbol, kind)

    UserContract.symbol = symbol
    UserContract.multiplier = multiplier
    UserContract.cash_requirement = cr
    UserContract.margin_requirement = mr
    return UserContract()


def builtin_contract(name):
    return {"ETF": lambda: ETF("SPY"), "ES": lambda: ES(2030, 3), "ZN": lambda: ZN(2030, 3)}[name]()


class Leg:
    """One non-cash contract of the account, with its symbolic state."""

    def __init__(self, c, tag, kind, shape, spec="user", quotes=True):
        self.tag = tag
        self.kind = kind
        self.shape = shape            # 'fresh' | 'flat' | 'long' | 'short' | 'held'
        if spec == "user":
            self.m = c.real("m_" + tag, 1e-3, 1e4)
            self.r = c.real("r_" + tag, 0, 1, lo_strict=True) if kind == "margined" else 0.0
            self.contract = user_contract("U" + tag, kind, self.m, self.r)
        else:
            self.contract = builtin_contract(spec)
            self.m = self.contract.multiplier
            self.r = self.contract.margin_requirement
        if quotes:
            self.bid = c.real("bid_" + tag, P_LO, P_HI)
            self.ask = c.real("ask_" + tag, P_LO, P_HI)
            c.assume(self.bid <= self.ask)
        else:
            self.bid = self.ask = None
        if shape == "fresh":
            self.q = 0.0
            self.p_last = None
        else:
            if shape == "flat":
                self.q = 0.0
            else:
                self.q = c.real("q_" + tag, -Q_HI, Q_HI)
                if shape == "long":
                    c.assume(self.q >= EPS)
                elif shape == "short":
                    c.assume(self.q <= -EPS)
                else:
                    c.assume(s_or(self.q >= EPS, self.q <= -EPS))
            self.p_last = c.real("plast_" + tag, P_LO, P_HI)

    def liq(self, q, bid=None, ask=None):
        """Liquidation price of a position of sign(q): bid for longs, ask for shorts."""
        bid = self.bid if bid is None else bid
        ask = self.ask if ask is None else ask
        if q > 0:
            return bid
        if q < 0:
            return ask
        return (bid + ask) / 2

    def install(self, broker):
        """Write this leg's state into the real broker (every shape a history creates)."""
        if self.shape == "fresh":
            return
        k = self.contract
        broker._holdings_quantity[k] = self.q
        broker._last_marking_to_market_price[k] = self.p_last
        if self.kind == "margined":
            broker._holdings_margins[k] = self.r * self.m * abs(self.q) * self.p_last
        else:
            broker._holdings_margins[k] = 0.0


def quote(exchange, contract, bid, ask, time=None):
    exchange.process_EventNBBO(EventNBBO(time, contract, bid, ask))


def build_account(c, legs, fees=True, cash_name="cash"):
    exchange = Exchange()
    quote(exchange, Cash(), 1.0, 1.0)
    if fees:
        fixed = c.real("fee_fixed", 0, 1e3)
        prop = c.real("fee_prop", 0, 1)
        fee = BrokerFees(fixed=fixed, proportional=prop)
    else:
        fee = BrokerFees()
    quote(exchange, fee.interest_rate, 0.0, 0.0)
    cash = c.real(cash_name, -1e9, 1e9)
    broker = Broker(exchange=exchange, deposit=cash, fees=fee)
    c.scale_hint(cash)
    for leg in legs:
        if leg.bid is not None:
            quote(exchange, leg.contract, leg.bid, leg.ask)
            if leg.shape not in ("fresh", "flat"):
                c.scale_hint(leg.q * leg.m * leg.ask)
        leg.install(broker)
    return exchange, broker, fee, cash


def oracle_nlv(cash, legs, quotes=None):
    """Independent closed form of the NLV of an INV state at given quotes:
    cash + sum_margined [M + q*m*(liq - last_mark)] + sum_spot q*m*liq."""
    total = cash
    for leg in legs:
        if leg.shape == "fresh":
            continue
        q = leg.q
        if isinstance(q, float) and q == 0:
            continue
        bid, ask = (leg.bid, leg.ask) if quotes is None else quotes[leg.tag]
        liq = leg.liq(q, bid, ask)
        if leg.kind == "margined":
            total = total + leg.r * leg.m * abs(q) * leg.p_last + q * leg.m * (liq - leg.p_last)
        else:
            total = total + q * leg.m * liq
    return total


def post_invariant(c, broker, leg, q_expected, label):
    """INV of the post-state for one leg, plus the C05 margin clause."""
    k = leg.contract
    q = broker._holdings_quantity[k]
    M = broker._holdings_margins[k]
    c.prove_eq(label + ":position", q, q_expected)
    if leg.kind == "margined":
        if q != 0:
            liq = leg.liq(q)
            c.prove_eq(label + ":margin=r*m*|q|*liq", M, leg.r * leg.m * abs(q) * liq)
            c.prove_eq(label + ":last-mark=liq", broker._last_marking_to_market_price[k], liq)
            c.prove(label + ":margin>=0", M >= 0)
        else:
            c.prove_eq(label + ":margin=0-when-flat", M, 0.0)
    else:
        c.prove_eq(label + ":no-margin-for-fully-paid", M, 0.0)
