"""C03 — rebalancing reaches the requested target (family L, DESIGN §4 C03)."""
from harness import l_rebalance
from harness.ledger import ASSUMPTIONS as _A

PROPERTY = "C03"
harness = l_rebalance.harness


def configs(tier):
    out = []

    def add(**kw):
        kw["prop"] = "C03"
        kw["id"] = "C03/" + ",".join("%s=%s" % (k, v) for k, v in sorted(kw.items()) if k != "prop")
        out.append(kw)

    for kind in ("spot", "margined"):
        for measure in ("weight", "nr-contracts"):
            for shape in ("fresh", "flat", "long", "short"):
                add(kindA=kind, shapeA=shape, measure=measure)
            add(kindA=kind, shapeA="held", measure=measure, frictionless=True)
            add(kindA=kind, shapeA="fresh", measure=measure, frictionless=True)
        # a held contract that is absent from the target / has a zero weight is closed
        for role in ("untargeted", "zero"):
            add(kindA=kind, shapeA="held", roleA=role, measure="weight")
        for kb in ("spot", "margined"):
            add(kindA=kind, shapeA="fresh", kindB=kb, shapeB="held", roleB="untargeted", measure="weight")
    # the same targets submitted through the action space (PortfolioSpace.make_rebalancing_request)
    for kind in ("spot", "margined"):
        for measure in ("weight", "nr-contracts"):
            add(kindA=kind, shapeA="held", measure=measure, via_space=True)
        add(kindA=kind, shapeA="fresh", kindB=kind, shapeB="held", roleB="zero", measure="nr-contracts", via_space=True)
    add(kindA="spot", specA="ETF", shapeA="held", measure="weight")
    add(kindA="margined", specA="ES", shapeA="held", measure="weight")
    if tier == "thorough":
        for ka in ("spot", "margined"):
            for kb in ("spot", "margined"):
                for sa in ("fresh", "long", "short"):
                    for sb in ("fresh", "long", "short"):
                        add(kindA=ka, shapeA=sa, kindB=kb, shapeB=sb, measure="weight")
                for sa in ("long", "short"):
                    for sb in ("long", "short"):
                        add(kindA=ka, shapeA=sa, kindB=kb, shapeB=sb, roleB="untargeted", measure="weight")
                        add(kindA=ka, shapeA=sa, kindB=kb, shapeB=sb, roleB="zero", measure="weight")
                add(kindA=ka, shapeA="held", kindB=kb, shapeB="held", measure="nr-contracts")
                add(kindA=ka, shapeA="held", kindB=kb, shapeB="held", measure="weight", frictionless=True)
    return out


ANCHORS = ["spaces.py:PortfolioSpace.make_rebalancing_request", "rebalancing.py:Rebalancing.make_trades", "allocation.py:Weights._to_nr_contracts",
           "allocation.py:_Allocation.__sub__", "allocation.py:NrContracts._to_weights",
           "broker.py:Broker.rebalance", "broker.py:Broker.transact", "broker.py:Broker.context"]
EXPECT_REACH = ["rebalance"]
ASSUMPTIONS = _A + ["NLV before trading > 0 (ruin is C09)", "trade threshold 0 (C12 owns thresholds)",
                    "interest rate book 0/0 (C06 owns interest)",
                    "target weights in [-10, 10] and non-zero; contract targets non-zero, |n| <= 1e6"]
BOUNDS = {
    "quick": "one targeted contract (spot-like or margined user spec, ETF, ES) from every INV shape, weight and "
             "number-of-contract measures, plus one held contract that is untargeted / zero-weighted; "
             "frictionless variants (bid=ask, no fees) incl. an immediate second rebalance",
    "thorough": "two targeted contracts of mixed kinds and shapes, or one targeted + one untargeted/zero-weight "
                "held contract",
}
OUTSIDE = ["IEEE rounding ('nothing of economic size' is checked as 'no trade' over the reals)",
           "more than two non-cash contracts", "absolute=False requests"]
STUBS = []
DEADLINE_S = {"quick": 600, "thorough": 3600}
TASK_S = 6.0
