"""C12 — trade filtering: threshold, liquidations, whole lots (family L, DESIGN §4 C12)."""
from harness import l_rebalance
from harness.ledger import ASSUMPTIONS as _A

PROPERTY = "C12"
harness = l_rebalance.harness


def configs(tier):
    out = []

    def add(**kw):
        kw["prop"] = "C12"
        kw["id"] = "C12/" + ",".join("%s=%s" % (k, v) for k, v in sorted(kw.items()) if k != "prop")
        out.append(kw)

    for kind in ("spot", "margined"):
        for measure in ("weight", "nr-contracts"):
            for shape in ("fresh", "long", "short"):
                add(kindA=kind, shapeA=shape, measure=measure, threshold="sym")
        # liquidations are exempt from the threshold: untargeted and zero-weight holdings
        for role in ("untargeted", "zero"):
            add(kindA=kind, shapeA="held", roleA=role, measure="weight", threshold="sym")
        add(kindA=kind, shapeA="fresh", kindB=kind, shapeB="held", roleB="untargeted", measure="weight",
            threshold="sym")
    # whole lots
    for spec, kind in (("ETF", "spot"), ("ES", "margined"), ("user", "spot"), ("user", "margined")):
        for measure in ("nr-contracts", "weight"):
            for shape in ("fresh", "long", "short"):
                add(kindA=kind, specA=spec, shapeA=shape, measure=measure, fractional=False, threshold=0.0)
        add(kindA=kind, specA=spec, shapeA="held", roleA="untargeted", measure="weight", fractional=False,
            threshold=0.0)
        add(kindA=kind, specA=spec, shapeA="held", measure="nr-contracts", fractional=False, threshold="sym")
    if tier == "thorough":
        for ka in ("spot", "margined"):
            for kb in ("spot", "margined"):
                for sa in ("fresh", "long", "short"):
                    for sb in ("long", "short"):
                        add(kindA=ka, shapeA=sa, kindB=kb, shapeB=sb, measure="weight", threshold="sym")
                        add(kindA=ka, shapeA=sa, kindB=kb, shapeB=sb, roleB="untargeted", measure="weight",
                            threshold="sym")
                        add(kindA=ka, shapeA=sa, kindB=kb, shapeB=sb, roleB="zero", measure="weight",
                            threshold="sym")
                add(kindA=ka, shapeA="held", kindB=kb, shapeB="held", measure="nr-contracts", threshold="sym")
        for spec, kind in (("ETF", "spot"), ("ES", "margined")):
            add(kindA=kind, specA=spec, shapeA="held", kindB="spot", specB="ETF" if spec != "ETF" else "user",
                shapeB="held", measure="nr-contracts", fractional=False, threshold=0.0)
    return out


ANCHORS = ["rebalancing.py:Rebalancing.make_trades", "trade.py:Trade.__init__",
           "allocation.py:_Allocation.__init__", "allocation.py:NrContracts._to_weights"]
EXPECT_REACH = ["rebalance"]
ASSUMPTIONS = _A + ["NLV before trading > 0", "threshold tau in [0, 10] symbolic (imbalances exactly at, below "
                    "and above it are chosen by the solver)", "interest rate book 0/0"]
BOUNDS = {
    "quick": "one targeted contract from every INV shape with a symbolic threshold, weight and number-of-contract "
             "measures; untargeted / zero-weight holdings; whole-lot mode on built-in ETF / ES specs",
    "thorough": "two contracts of mixed kinds, roles and shapes with a symbolic threshold; whole lots with two "
                "contracts",
}
OUTSIDE = ["IEEE rounding", "more than two non-cash contracts", "whole-lot imbalances of 4 lots or more"]
STUBS = ["builtin int() shadowed in tradingenv.broker.rebalancing (whole-lot configs only): truncation toward "
         "zero decided by forking over the integer result k in [-3, 3] (k <= x < k+1 for x >= 0, k >= x > k-1 "
         "for x < 0); imbalances of 4 lots or more are assumed away"]
DEADLINE_S = {"quick": 600, "thorough": 3600}
TASK_S = 6.0
