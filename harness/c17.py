"""C17 — only in-space actions are executed, as the allocation they denote (family E)."""
from __future__ import annotations

import numpy as np

from symx import core, stubs
from tradingenv import rewards as _rewards_mod
from symx.core import SymReal, s_and
from harness.episode import Episode, ASSUMPTIONS as _A
from tradingenv.contracts import Cash
from tradingenv.spaces import BoxPortfolio
from tradingenv.broker.broker import EndOfEpisodeError

PROPERTY = "C17"
NAN = float("nan")


def _malformed(kind, n):
    if kind.startswith("nan@"):
        i = int(kind[4:])
        v = [0.3] * n
        v[i % n] = NAN
        return np.array(v)
    return {
        "nan": np.array([0.3] * (n - 1) + [NAN]),
        "too-long": np.array([0.1] * (n + 1)),
        "too-short": np.array([0.1] * (n - 1)) if n > 1 else np.array([]),
        "2d": np.array([[0.1] * n]),
        "none": None,
        "string": "buy",
        "inf": np.array([0.3] * (n - 1) + [float("inf")]),
        "idx-neg": -1,
        "idx-n": 4,
        "idx-float": 1.5,
        "idx-array": np.array([1, 2]),
        "idx-bool": True,
        "idx-npfloat": np.float64(1.7),
        "idx-npfloat32": np.float32(2.5),
        "idx-0dfloat": np.array(0.9),
        "idx-npbool": np.bool_(True),
        "idx-negfloat": np.float64(-0.4),
    }[kind]


def harness(c, cfg):
    sym = c.mode == "sym"
    if sym:
        stubs.install(_rewards_mod, "float", core.sym_float)
    try:
        _harness(c, cfg)
    finally:
        if sym:
            stubs.uninstall(_rewards_mod, "float")


def _harness(c, cfg):
    ep = Episode(c, cfg)
    env = ep.env
    d = cfg.get("delay", 0)
    inject_at = cfg.get("inject_at", 1)           # 1-based step at which the probed action is submitted
    n = len(ep.space_contracts)
    kind = cfg["action"]
    low, high = cfg.get("low", -1.0), cfg.get("high", 2.0)
    if kind == "sym":
        entries = [c.real("a%d" % i, -5, 5) for i in range(n)]
        if c.mode == "sym":
            action = np.empty(n, dtype=object)
            for i, e in enumerate(entries):
                action[i] = e
        else:
            action = np.array(entries, dtype=float)
        inside = all(bool(e >= low) and bool(e <= high) for e in entries)
    elif kind == "list-ok":
        action = [0.25 + 0.05 * i for i in range(n)]
        inside = True
        entries = list(action)
    elif kind in ("idx-np2", "idx-np3"):
        action = np.int64(int(kind[-1]))
        inside = True
        entries = None
    elif kind.startswith("idx-ok"):
        action = int(kind[-1])
        inside = True
        entries = None
    else:
        action = _malformed(kind, n)
        inside = False
        entries = None
    env.reset()
    due = inject_at + d
    k = 0
    rejected_at = None
    rejected_exc = None
    executed = None
    while k < due and not env._done:
        k += 1
        a = action if k == inject_at else ep.action(k)
        n_rec = len(env.broker.track_record)
        q_before = {con: env.broker._holdings_quantity.get(con, 0.0) for con in ep.contracts}
        try:
            _, r, done, info = env.step(a)
        except EndOfEpisodeError:
            c.out_of_scope("ruin (C09)")
        except (ValueError, TypeError, IndexError, AttributeError, KeyError) as ex:
            core.reraise_if_proxy(ex)
            rejected_at = k
            rejected_exc = repr(ex)[:300]
            unchanged = all((env.broker._holdings_quantity.get(con, 0.0) is q_before[con]) or
                            bool(env.broker._holdings_quantity.get(con, 0.0) == q_before[con]) for con in ep.contracts)
            c.prove("C17:rejected-action-produces-no-trade-and-no-record",
                    unchanged and len(env.broker.track_record) == n_rec, info={"step": k, "exc": repr(ex)[:300]})
            break
        if k == due:
            executed = info.get("_rebalancing")
    if not inside:
        c.prove("C17:out-of-space-action-rejected-no-later-than-due", rejected_at is not None and rejected_at <= due,
                info={"rejected_at": rejected_at, "due": due, "action": kind})
        c.reached("rejected")
        if cfg.get("carry_on") and rejected_at is not None:
            _carry_on(c, cfg, ep, env, d, inject_at, k)
        return
    c.prove("C17:in-space-action-is-not-rejected", rejected_at is None, info={"rejected_at": rejected_at, "exc": rejected_exc})
    if rejected_at is not None or executed is None:
        return
    # ---- executed in the unit and mode the space was declared with
    want_type = "Weights" if cfg.get("as_weights", True) else "NrContracts"
    c.prove("C17:allocation-in-the-declared-unit(weights-vs-contracts)", type(executed.allocation).__name__ == want_type,
            info=type(executed.allocation).__name__)
    c.prove("C17:whole-lot-mode-as-declared", executed.fractional == cfg.get("fractional", True))
    c.prove("C17:trade-threshold-as-declared", executed.margin == cfg.get("space_margin", 0.0),
            info={"got": executed.margin})
    # ---- executed as the allocation it denotes: cash entry ignored, zero entries dropped
    got = dict(executed.allocation.items())
    if kind in ("sym", "list-ok"):
        vec = entries
    else:
        vec = ep.allocs[int(action)]
    for con, w in zip(ep.space_contracts, vec):
        if isinstance(con, Cash):
            c.prove("C17:cash-entry-is-ignored", con not in got)
            continue
        if w != 0:
            c.prove("C17:allocation-entry=action-entry", con in got)
            if con in got:
                c.prove_eq("C17:allocation-entry=action-entry", got[con], w)
        else:
            c.prove("C17:zero-entry-is-dropped", con not in got)
    c.prove("C17:no-foreign-allocation-entries", all(any(k_ is con for con in ep.space_contracts) for k_ in got))
    # residual held as cash: position*price = w*NLV_pre for every traded contract (C03), rest in cash
    if not cfg.get("fractional", True) or cfg.get("space_margin"):
        pass        # whole lots / a trade threshold (small trades are filtered: C12 owns that): quantities are truncated (C12 owns that); unit and mode were checked above
    elif cfg.get("as_weights", True):
        nlv_pre = executed.context_pre.nlv
        total = 0.0
        for con in ep.contracts:       # the broker's snap-to-zero band is outside every claim
            held = sum(t.quantity for rec in [env.broker.track_record[i] for i in range(len(env.broker.track_record))]
                       for t in rec.trades if t.contract == con)
            if isinstance(held, SymReal):
                c.assume(core.s_or(held == 0, held >= 1.001e-7, held <= -1.001e-7))
        for con, w in zip(ep.space_contracts, vec):
            if isinstance(con, Cash):
                continue
            q1 = env.broker._holdings_quantity.get(con, 0.0)
            tr = [t for t in executed.trades if t.contract is con or t.contract == con]
            px = executed.context_post.values.get(con, 0.0)
            c.prove_eq("C17:executed-position-value=w*NLV_pre", px, w * nlv_pre, scale=(nlv_pre,))
            total = total + px
        cash = env.broker._holdings_quantity[env.broker.base_currency]
        c.prove_eq("C17:residual-held-as-cash", cash, nlv_pre - total, scale=(nlv_pre,))
    else:
        # number-of-contracts mode: the action entries are the positions themselves
        for con, w in zip(ep.space_contracts, vec):
            if isinstance(con, Cash):
                continue
            if isinstance(w, SymReal):
                c.assume(core.s_or(w == 0, w >= 1.001e-7, w <= -1.001e-7))
            c.prove_eq("C17:contracts-mode:position=action-entry", env.broker._holdings_quantity.get(con, 0.0), w)
    c.record("alloc", [[k_.symbol, v] for k_, v in got.items()])
    c.reached("executed")


def _carry_on(c, cfg, ep, env, d, inject_at, k):
    """The caller catches the rejection and keeps stepping with valid actions: every valid
    action that becomes due is still executed exactly once, in order, as the allocation it
    denotes, and the malformed one is never executed nor rejected a second time."""
    executed = []
    extra_rejections = 0
    n0 = len(env.broker.track_record)
    while k < ep.N - 1 and not env._done:
        k += 1
        try:
            _, r, done, info = env.step(ep.action(k))
        except EndOfEpisodeError:
            c.out_of_scope("ruin (C09)")
        except (ValueError, TypeError, IndexError, AttributeError, KeyError) as ex:
            core.reraise_if_proxy(ex)
            extra_rejections += 1
            continue
    tr = env.broker.track_record
    got = []
    for i in range(len(tr)):
        al = {con.symbol: float(w) for con, w in tr[i].allocation.items()}
        if al:
            got.append(al)
    # valid actions submitted at steps 1..K (except inject_at), due d steps later, within the run
    want = []
    for j in range(1, k + 1):
        if j == inject_at or j + d > k:
            continue
        a = ep.action(j)
        if isinstance(ep.space, BoxPortfolio):
            al = {con.symbol: float(w) for con, w in zip(ep.space_contracts, a) if w != 0 and not isinstance(con, Cash)}
        else:
            al = {con.symbol: float(w) for con, w in zip(ep.space_contracts, ep.allocs[int(a)])
                  if w != 0 and not isinstance(con, Cash)}
        if al:
            want.append(al)
    c.prove("C17:valid-actions-still-executed-once-in-order-after-a-rejection", got == want,
            info={"executed": got, "expected": want})
    # once the malformed action has been rejected, steps that submit in-space actions do not fail
    c.prove("C17:no-further-rejection-of-in-space-steps", extra_rejections == 0,
            info={"further_rejections": extra_rejections})
    c.reached("carried-on")


def configs(tier):
    out = []

    def add(**kw):
        kw["id"] = "C17/" + ",".join("%s=%s" % kv for kv in sorted(kw.items()))
        out.append(kw)

    for d in (0, 1):
        add(N=4, M=0, action="sym", delay=d, inject_at=1)
        add(N=4, M=0, action="sym", delay=d, inject_at=2, cash_in_space=True)
        for kind in ("nan", "too-long", "too-short", "none", "string"):
            add(N=4, M=0, action=kind, delay=d, inject_at=1 + d)
        # NaN in every position of a space that contains the cash contract (weights and contracts mode)
        for i in (0, 1, 2):
            add(N=4, M=0, action="nan@%d" % i, delay=d, inject_at=1, cash_in_space=True, two_contracts=True)
        add(N=4, M=0, action="nan@0", delay=d, inject_at=1, cash_in_space=True, as_weights=False)
        for kind in ("idx-neg", "idx-n", "idx-float", "idx-array", "idx-ok1", "idx-ok3"):
            add(N=4, M=0, action=kind, delay=d, inject_at=1, space="discrete", cash_in_space=(d == 1))
        # discrete spaces declared in numbers of contracts / in whole lots
        add(N=4, M=0, action="idx-ok1", delay=d, inject_at=1, space="discrete", as_weights=False, two_contracts=True)
        add(N=4, M=0, action="idx-ok3", delay=d, inject_at=1, space="discrete", as_weights=False, cash_in_space=True)
        add(N=4, M=0, action="idx-ok1", delay=d, inject_at=1, space="discrete", fractional=False)
    add(N=4, M=0, action="sym", delay=0, inject_at=1, two_contracts=True, cash_in_space=True, low=0.0, high=1.0)
    add(N=4, M=0, action="sym", delay=0, inject_at=1, space_margin=0.05)
    # the cash contract in last / middle position of the space
    add(N=4, M=0, action="sym", delay=0, inject_at=2, cash_in_space="last")
    add(N=4, M=0, action="sym", delay=1, inject_at=1, cash_in_space="middle", two_contracts=True)
    add(N=4, M=0, action="idx-ok3", delay=0, inject_at=1, space="discrete", cash_in_space="last", two_contracts=True)
    add(N=5, M=0, action="nan", delay=1, inject_at=2, carry_on=True)
    add(N=5, M=0, action="too-long", delay=2, inject_at=1, carry_on=True)
    add(N=5, M=0, action="idx-n", delay=1, inject_at=1, space="discrete", carry_on=True)
    add(N=4, M=0, action="nan", delay=0, inject_at=2, carry_on=True)
    add(N=4, M=0, action="list-ok", delay=0, inject_at=1, cash_in_space=True, two_contracts=True)
    add(N=4, M=0, action="list-ok", delay=1, inject_at=1)
    add(N=4, M=0, action="2d", delay=0, inject_at=1)
    add(N=4, M=0, action="inf", delay=1, inject_at=1)
    for kind_ in ("idx-npfloat", "idx-npfloat32", "idx-0dfloat", "idx-npbool", "idx-negfloat"):
        add(N=4, M=0, action=kind_, delay=0, inject_at=1, space="discrete")
    add(N=4, M=0, action="idx-npfloat", delay=1, inject_at=1, space="discrete")
    add(N=4, M=0, action="idx-np2", delay=0, inject_at=1, space="discrete")
    add(N=4, M=0, action="idx-np3", delay=1, inject_at=1, space="discrete")
    add(N=4, M=0, action="sym", delay=1, inject_at=1, two_contracts=True, cash_in_space=True, as_weights=False,
        low=-1.0, high=2.0)
    if tier == "thorough":
        for d in (0, 1, 2):
            for j in (1, 2):
                add(N=5, M=0, action="sym", delay=d, inject_at=j, two_contracts=True)
                add(N=5, M=0, action="sym", delay=d, inject_at=j, cash_in_space=True, low=-2.5, high=3.0)
                for kind in ("nan", "inf", "2d", "too-long"):
                    add(N=5, M=0, action=kind, delay=d, inject_at=j, two_contracts=True)
                for kind in ("idx-neg", "idx-n", "idx-float", "idx-ok2"):
                    add(N=5, M=0, action=kind, delay=d, inject_at=j, space="discrete", two_contracts=True)
    return out


ANCHORS = ["spaces.py:PortfolioSpace.make_rebalancing_request", "spaces.py:BoxPortfolio.contains",
           "spaces.py:DiscretePortfolio._make_allocation", "env.py:TradingEnv.step",
           "allocation.py:_Allocation.__init__", "rebalancing.py:Rebalancing.__init__"]
EXPECT_REACH = ["rejected", "executed", "carried-on"]
ASSUMPTIONS = _A + ["Box bounds concrete ([-1,2], [0,1], [-2.5,3]); the probed action vector is symbolic with entries in "
                    "[-5,5] (the solver decides low <= x <= high per entry, incl. the exact bounds); NaN / inf / wrong "
                    "shape / wrong type / invalid index are concrete variants", "prices concrete; earlier actions concrete"]
BOUNDS = {"quick": "grid of 4, delays 0-1, malformed action injected at step 1 or 2, spaces with and without a cash entry, "
                   "Box and Discrete",
          "thorough": "grid of 5, delays 0-2, two contracts, wider bounds"}
OUTSIDE = ["custom PortfolioSpace subclasses"]
STUBS = ["builtin float() shadowed in tradingenv.rewards (identity on proxies)"]
DEADLINE_S = {"quick": 900, "thorough": 3600}
