"""C02 — no look-ahead (event-stream API; family E).

Symbolic mode = non-interference by dependence analysis on the terms the real code
produced: every value returned or recorded by the time a step lands on T_k, and every
forked branch decision taken up to that point, is a z3 term whose set of input variables is
known.  If it mentions the payload (price / custom payload) of an event e whose stamp can
exceed the cut under the path condition (solver query), the self-composition query
    PC and PC[v:=v'] and stamp_e > cut and out != out[v:=v']
decides whether the value really depends on it.  Concrete mode = differential run: the same
episode is run twice on the real code, the second time with every payload stamped after
the cut altered, and the outputs up to the cut are compared."""
from __future__ import annotations

import numpy as np
import z3

from symx import core, stubs
from symx.core import SymReal, SymBool
from symx.timeproxy import SymTime
from harness.episode import Episode, Inputs, ASSUMPTIONS as _A
from tradingenv import rewards as _rewards_mod
from tradingenv.events import EventNBBO
from tradingenv.broker.broker import EndOfEpisodeError

PROPERTY = "C02"


def _collect(out, acc):
    if isinstance(out, (SymReal, SymTime)):
        acc.append(out)
    elif isinstance(out, dict):
        for v in out.values():
            _collect(v, acc)
    elif isinstance(out, (list, tuple)):
        for v in out:
            _collect(v, acc)


def _outputs(ep, step_out):
    """Everything observable after a step (or reset): reward, record, holdings, books,
    observer-visible payloads."""
    env = ep.env
    out = {"reward": step_out[0] if step_out else None}
    tr = env.broker.track_record
    recs = []
    for i in range(len(tr)):
        reb = tr[i]
        recs.append({"pre": reb.context_pre.nlv, "post": reb.context_post.nlv,
                     "trades": [[t.quantity, t.acq_price, t.bid_price, t.ask_price] for t in reb.trades],
                     "weights": list(reb.context_post.weights.values())})
    out["records"] = recs
    out["holdings"] = list(env.broker._holdings_quantity.values()) + list(env.broker._holdings_margins.values())
    out["books"] = [[env.exchange[c].bid_price, env.exchange[c].ask_price] for c in ep.contracts]
    out["seen"] = [[getattr(e["event"], "bid_price", None), getattr(e["event"], "ask_price", None),
                    getattr(e["event"], "payload", None), e["time"], e["now"]] for e in ep.log]
    out["record_times"] = [tr[i].time for i in range(len(tr))]
    st = env.state
    if getattr(st, "features", None):
        out["features"] = [[v for v in f.history.values()] for f in st.features]
    return out


def _payload_vars(ep):
    """name of input variable -> event it belongs to (payloads of every event; for the freely
    placed events also the stamp itself: a stamp after the cut must not show in any output)."""
    m = {}
    for ev in ep.free:
        if isinstance(ev.time, SymTime):
            for n in ev.time.vs:
                m[n] = ev
    for ev in ep.events:
        for attr in ("bid_price", "ask_price", "payload"):
            v = getattr(ev, attr, None)
            if isinstance(v, SymReal):
                for n in v.vs:
                    m[n] = ev
    return m


def _later(c, ev_time, cut, L):
    """SymBool: the event is stamped after cut (+ latency)."""
    if L is None or (isinstance(L, (int, float)) and L == 0):
        return ev_time > cut
    return (ev_time - cut).total_seconds() > L


def _check_sym(c, ep, label, terms, decisions_upto, cut, L, pv, decisions_from=0):
    """Stage 1 (syntactic occurrence + feasibility of 'later') and stage 2 (self-composition)."""
    suspects = {}
    for t in terms:
        for n in t.vs:
            if n in pv:
                suspects.setdefault(n, []).append(t)
    dec_suspects = {}
    for cj in c.pc[decisions_from:decisions_upto]:
        if cj.tag != "dec":
            continue
        for n in _conj_vars(c, cj):
            if n in pv and c.var_kind.get(n) == "real":      # payloads; ordering decisions on stamps are legitimate
                dec_suspects.setdefault(n, []).append(cj)
    ok = True
    for n in sorted(set(suspects) | set(dec_suspects)):
        ev = pv[n]
        later = _later(c, ev.time, cut, L)
        conj, names = c._slice(later.vs)
        r, _ = c._solve(conj, [later.e], names, False, want_model=False)
        if r == "unsat":
            continue                       # the event cannot be stamped after the cut on this path
        # stage 2: does any output really depend on it?
        v = c.vars[n]
        c.fresh_n += 1
        alt = (z3.Real if c.var_kind.get(n) == "real" else z3.Int)("%s!alt%d" % (n, c.fresh_n))
        vs = {n}
        for t in suspects.get(n, []):
            vs |= t.vs
        vs |= later.vs
        conj, names = c._slice(vs)
        pcs = [cj.e for cj in conj]
        pcs_alt = [z3.substitute(e, (v, alt)) for e in pcs]
        diffs = [t.e != z3.substitute(t.e, (v, alt)) for t in suspects.get(n, [])]
        leak = False
        if dec_suspects.get(n):
            leak = True                    # a forked decision read a value stamped after the cut
            why = "a branch decision taken before the cut reads %s" % n
        elif diffs:
            s = z3.SolverFor("QF_NRA") if any(getattr(t, "nl", False) for t in suspects[n]) else z3.Solver()
            s.set("timeout", c.timeout_ms)
            s.add(*pcs)
            s.add(*pcs_alt)
            s.add(later.e)
            s.add(z3.Or(*diffs))
            res = s.check()
            c.stats.queries += 1
            if res == z3.unsat:
                continue
            if res != z3.sat:
                c.undecided += 1
                c.obligations.append({"name": label, "status": "undecided"})
                continue
            leak = True
            why = "an output changes when %s changes" % n
        if leak:
            ok = False
            c.prove(label, False, info={"variable": n, "event": getattr(ev, "_tag", None), "why": why})
    if ok:
        c.obligations.append({"name": label, "status": "ok"})


def _conj_vars(c, cj):
    # variables of a path-condition conjunct: the members of its union-find class are an
    # over-approximation; compute exactly from the term (small terms)
    out = set()
    stack = [cj.e]
    seen = set()
    while stack:
        e = stack.pop()
        if e.get_id() in seen:
            continue
        seen.add(e.get_id())
        if z3.is_const(e) and e.decl().kind() == z3.Z3_OP_UNINTERPRETED:
            out.add(e.decl().name())
        else:
            stack.extend(e.children())
    return out


def _grid_cut(ep, now):
    """The timestep an interaction landed on: the latest grid point <= the environment's clock
    (the clock itself may have been dragged forward by an event delivered too early)."""
    cut = None
    for t in ep.T:
        if bool(t <= now):
            cut = t
    return cut if cut is not None else now


def _run(ep, upto=None):
    """reset + all steps; returns per-interaction outputs and the pc length at that point."""
    env = ep.env
    c = ep.c
    outs = []
    env.reset(fold=ep.fold_name)
    outs.append((_outputs(ep, None), len(c.pc) if c.mode == "sym" else 0, _grid_cut(ep, env.now())))
    k = 0
    while not env._done and k < ep.N + 1:
        so = env.step(ep.action(k))
        k += 1
        outs.append((_outputs(ep, (so[1],)), len(c.pc) if c.mode == "sym" else 0, _grid_cut(ep, env.now())))
    return outs


def harness(c, cfg):
    sym = c.mode == "sym"
    if sym:
        stubs.install(_rewards_mod, "float", core.sym_float)
    try:
        _harness(c, cfg)
    finally:
        if sym:
            stubs.uninstall(_rewards_mod, "float")


def _harness(c, cfg):
    cfg = dict(cfg, sym_prices=True, sym_payload=True)
    ep = Episode(c, cfg)
    try:
        for name in (cfg.get("fold_sequence") or [None])[:-1]:
            ep.use_fold(name)
            _run(ep)                          # earlier episodes on other folds of the same environment
            del ep.log[:]
        if cfg.get("fold_sequence"):
            ep.use_fold(cfg["fold_sequence"][-1])
        pc0 = len(c.pc) if c.mode == "sym" else 0      # decisions of earlier episodes are not this one's
        outs = _run(ep)
    except EndOfEpisodeError:
        c.out_of_scope("ruin (C09)")
    except StopIteration:
        c.out_of_scope("fold contains no grid point")
    if c.mode == "sym":
        pv = _payload_vars(ep)
        for k, (out, npc, landed) in enumerate(outs):
            terms = []
            _collect(out, terms)
            # everything returned/recorded by the time the interaction lands on `landed`
            _check_sym(c, ep, "C02:outputs-up-to-t-independent-of-data-stamped-after-t", terms, npc, landed, None, pv,
                       decisions_from=pc0)
            # the trades executed in the FOLLOWING step depend on nothing stamped after t + latency
            if k + 1 < len(outs):
                nxt = outs[k + 1][0]
                tterms = []
                if len(nxt["records"]) > len(out["records"]):
                    _collect(nxt["records"][-1]["trades"], tterms)
                    _collect(nxt["records"][-1]["pre"], tterms)
                _check_sym(c, ep, "C02:next-execution-independent-of-data-stamped-after-t+latency", tterms,
                           0, landed, ep.L, pv)
        c.record("n_interactions", len(outs))
    else:
        # differential run on the real code: alter every payload stamped after the cut
        for k, (out, _, landed) in enumerate(outs):
            for cut_lat, label in ((None, "C02:outputs-up-to-t-independent-of-data-stamped-after-t"),
                                   (ep.L, "C02:next-execution-independent-of-data-stamped-after-t+latency")):
                ep2 = Episode(c, cfg, inputs=_AlteredInputs(ep.inp, ep, landed, cut_lat))
                try:
                    for name in (cfg.get("fold_sequence") or [None])[:-1]:
                        ep2.use_fold(name)
                        _run(ep2)
                        del ep2.log[:]
                    if cfg.get("fold_sequence"):
                        ep2.use_fold(cfg["fold_sequence"][-1])
                    outs2 = _run(ep2)
                except (EndOfEpisodeError, StopIteration):
                    outs2 = []
                if cut_lat is None:
                    same = len(outs2) > k and _plain_eq(outs2[k][0], out)
                    c.prove(label, same, info={"cut": str(landed), "interaction": k})
                elif k + 1 < len(outs):
                    a = outs[k + 1][0]["records"][-1:] if len(outs[k + 1][0]["records"]) > len(out["records"]) else []
                    b = []
                    if len(outs2) > k + 1 and len(outs2[k + 1][0]["records"]) > len(outs2[k][0]["records"]):
                        b = outs2[k + 1][0]["records"][-1:]
                    a = [[r["pre"], r["trades"]] for r in a]
                    b = [[r["pre"], r["trades"]] for r in b]
                    c.prove(label, _plain_eq(a, b), info={"cut": str(landed), "interaction": k})
        c.record("n_interactions", len(outs))
    c.reached("episode")


class _AlteredInputs(Inputs):
    """Concrete mode: the same inputs, except that the payload of every event stamped after
    the cut (+ latency) is different."""

    def __init__(self, base, ep, cut, latency):
        Inputs.__init__(self, base.c, base.prefix)
        self.memo = dict(base.memo)
        for ev in ep.events:
            late = ev.time > cut if latency is None else (ev.time - cut).total_seconds() > latency
            if not late:
                continue
            tag = ev._tag
            if tag.startswith("bar"):
                i, k = tag[3:].split("_")
                names = ["bid_%s_%s" % (i, k), "ask_%s_%s" % (i, k)]
            else:
                j = tag[4:]
                names = ["fbid_%s" % j, "fask_%s" % j, "pay_%s" % j]
            for n in names:
                if n in self.memo:
                    self.memo[n] = self.memo[n] * 1.5 + 3.0


def _plain_eq(a, b):
    if isinstance(a, dict) and isinstance(b, dict):
        return a.keys() == b.keys() and all(_plain_eq(a[k], b[k]) for k in a)
    if isinstance(a, (list, tuple)) and isinstance(b, (list, tuple)):
        return len(a) == len(b) and all(_plain_eq(x, y) for x, y in zip(a, b))
    if isinstance(a, float) and isinstance(b, float) and a != a and b != b:
        return True
    return a == b


def configs(tier):
    out = []

    def add(**kw):
        kw["id"] = "C02/" + ",".join("%s=%s" % kv for kv in sorted(kw.items()))
        out.append(kw)

    add(N=3, M=1, latency="zero", free_kinds=["quote"])
    add(N=3, M=1, latency="sym", free_kinds=["quote"])
    add(N=3, M=1, latency="sym", free_kinds=["ping"])
    add(N=3, M=1, latency="sym", free_kinds=["quote"], delay=1)
    add(N=3, M=1, latency="sym", free_kinds=["quote"], fold="sym")
    add(N=3, M=1, latency="zero", free_kinds=["quote"], feature=True)
    add(N=3, M=1, latency="sym", free_kinds=["quote"], reward="RewardLogReturn")
    add(N=3, M=0, latency="zero", fold="two", fold_sequence=["test-set", "training-set"], markov=True)
    add(N=3, M=0, latency="zero", fold="two", fold_sequence=["training-set", "test-set"], markov=True)
    add(N=3, M=1, latency="sym", free_kinds=["quote"], fold="two", fold_sequence=["test-set", "training-set"])
    if tier == "thorough":
        add(N=4, M=1, latency="sym", free_kinds=["quote"])
        add(N=3, M=2, latency="sym", free_kinds=["quote", "ping"])
        add(N=3, M=1, latency="sym", free_kinds=["quote"], fold="sym", markov=True)
        add(N=3, M=1, latency="sym", free_kinds=["quote"], fold="sym", warmup="sym")
        add(N=4, M=1, latency="sym", free_kinds=["quote"], delay=2)
        add(N=3, M=1, latency="sym", free_kinds=["quote"], two_contracts=True)
        add(N=3, M=1, latency="sym", free_kinds=["quote"], feature=True, fees=True)
    return out


ANCHORS = ["transmitter.py:Transmitter._create_partitions", "transmitter.py:Transmitter._next", "env.py:TradingEnv.step",
           "env.py:TradingEnv.reset", "exchange.py:Exchange.process_EventNBBO", "broker.py:Broker.rebalance",
           "rewards.py:RewardSimpleReturn.calculate"]
EXPECT_REACH = ["episode"]
ASSUMPTIONS = _A + ["payloads (quote prices of every bar and extra quote, custom-event payload) symbolic; actions concrete",
                    "perturbations considered: the values carried by events stamped after the cut, and the stamps of the "
                    "freely placed events (a stamp after the cut must not occur in any output); changing the *number* of "
                    "later events is not covered",
                    "dependence is decided on the z3 terms produced by the real code: syntactic occurrence (sound "
                    "over-approximation), then feasibility of 'stamped after the cut', then a self-composition query; a "
                    "forked branch decision that reads a later value counts as a leak"]
BOUNDS = {"quick": "grids of 3 timesteps, one extra quote or custom event placed by the solver, symbolic latency, delay 0-1, "
                   "symbolic fold, a feature with history, two reward classes; every interaction of the episode is a cut",
          "thorough": "grids of 4 with one extra event, grids of 3 with two, markov reset / warm-up, two contracts, delay 2 "
                      "(grid of 4 with two extra events did not finish within the 90-minute budget and was dropped)"}
OUTSIDE = ["the tabular API (TradingEnvXY data preparation: sklearn fit, pandas reindex/ffill/clip run in compiled code "
           "that proxies cannot enter) — see DESIGN §5", "perturbing stamps or the number of later events"]
STUBS = ["builtin float() shadowed in tradingenv.rewards", "np.log uninterpreted (log-reward config)"]
DEADLINE_S = {"quick": 900, "thorough": 5400}
TASK_S = 8.0
