"""C07 — track record and rewards are a faithful, replayable account (family E).

Timeline symbolic (grid, optional extra quote, latency) AND prices symbolic.  An
independent ledger written here (the C01 closed form) is fed with the *recorded* trades,
commissions and interest and valued at the quote history; it must reproduce every
recorded pre-/post-trade NLV, holdings and weights, and every reward."""
from __future__ import annotations

import numpy as np

from symx import core, stubs
from symx.core import SymReal, s_and
from harness.episode import Episode, ASSUMPTIONS as _A
from harness.c08 import _last_quote, _last_quote_latency
from tradingenv import rewards as _rewards_mod
from tradingenv.rewards import RewardPnL, RewardLogReturn, LogReturn, RewardSimpleReturn

PROPERTY = "C07"


class Ledger:
    def __init__(self, deposit):
        self.deposit = deposit
        self.comm = 0.0
        self.interest = 0.0
        self.q = {}
        self.paid = {}

    def nlv(self, quotes, mult):
        total = self.deposit + self.interest - self.comm
        for sym, q in self.q.items():
            total = total - self.paid[sym]
            if q != 0:
                bid, ask = quotes[sym]
                total = total + mult[sym] * q * (bid if q > 0 else ask)
        return total

    def apply(self, trade, c=None):
        sym = trade.contract.symbol
        self.q[sym] = self.q.get(sym, 0.0) + trade.quantity
        if c is not None:       # the broker's snap-to-zero band is outside every claim
            q = self.q[sym]
            c.assume(core.s_or(q == 0, q >= 1.001e-7, q <= -1.001e-7))
        self.paid[sym] = self.paid.get(sym, 0.0) + trade.quantity * trade.acq_price * trade.contract.multiplier
        self.comm = self.comm + trade.cost_of_commissions


def _quotes_at(c, ep, t_prev=None, upto=None):
    out = {}
    for con in ep.contracts:
        if upto is not None:
            q = _last_quote(c, ep, con, upto)
        elif isinstance(ep.L, (int, float)) and ep.L == 0:
            q = _last_quote(c, ep, con, t_prev)
        else:
            q = _last_quote_latency(c, ep, con, t_prev, ep.L)
        out[con.symbol] = (q.bid_price, q.ask_price)
    return out


def _reward_oracle(c, kind, nlv_after, pre, params):
    if kind == "RewardSimpleReturn":
        return nlv_after / pre - 1
    if kind == "RewardPnL":
        return nlv_after - pre
    if kind == "RewardLogReturn":
        return c.log(nlv_after / pre)
    scale, clip, ra = params
    ret = c.log(nlv_after / pre) / scale
    if ret < -clip:
        ret = -clip
    elif ret > clip:
        ret = clip
    if ret < 0:
        ret = ret * (1 + ra)
    return ret


def harness(c, cfg):
    sym = c.mode == "sym"
    if sym:
        stubs.install(_rewards_mod, "float", core.sym_float)
    try:
        _harness(c, cfg)
    finally:
        if sym:
            stubs.uninstall(_rewards_mod, "float")


def _harness(c, cfg):
    kind = cfg.get("reward_kind", "RewardSimpleReturn")
    params = None
    if kind == "LogReturn":
        params = (0.5, 0.25, 0.5)
        cfg = dict(cfg, reward=LogReturn(scale=params[0], clip=params[1], risk_aversion=params[2]))
    else:
        cfg = dict(cfg, reward=kind)
    ep = Episode(c, cfg)
    env = ep.env
    mult = {con.symbol: con.multiplier for con in ep.contracts}
    fixed, prop = (0.01, 0.001) if cfg.get("fees") else (0.0, 0.0)
    env.reset()
    led = Ledger(100.0)
    rewards = []
    k = 0
    simple = 1.0
    seen = []          # (record, fields as first seen) to detect later mutation of earlier records
    while not env._done and k < ep.N + 1:
        n_before = len(env.broker.track_record)
        a = ep.action(k) if not cfg.get("sells") else ep.action(ep.N - k)
        _, r, done, info = env.step(a)
        k += 1
        rewards.append(r)
        reb = info.get("_rebalancing")
        c.prove("C07:one-record-per-executed-decision", reb is not None and
                len(env.broker.track_record) == n_before + 1 and env.broker.track_record[-1] is reb)
        # ---- record time = stamp of the latest event processed before the execution
        before = [e for e in ep.log if e["nreb"] is not None and e["nreb"] <= k - 1]
        # entries with nreb == k-1 were logged after execution k-1 and before execution k
        last = before[-1]
        c.prove("C07:record-stamped-with-latest-event-before-execution", reb.time == last["time"],
                info={"record": reb.time, "latest": last["time"], "kind": last["kind"]})
        if k >= 2:
            prev = env.broker.track_record[-2]
            c.prove("C07:record-times-strictly-increasing", prev.time < reb.time,
                    info={"prev": prev.time, "this": reb.time})
        # ---- independent ledger
        quotes = _quotes_at(c, ep, t_prev=ep.T[k - 1])
        led.interest = led.interest + reb.profit_on_idle_cash
        pre = led.nlv(quotes, mult)
        c.prove_eq("C07:recorded-pre-trade-nlv=ledger", reb.context_pre.nlv, pre)
        for tr in reb.trades:
            q = quotes[tr.contract.symbol]
            c.prove_eq("C07:trade-recorded-at-prevailing-quote", tr.acq_price, q[1] if tr.quantity > 0 else q[0])
            c.prove_eq("C07:recorded-commission=fee-schedule", tr.cost_of_commissions,
                       fixed + prop * abs(tr.quantity * tr.acq_price * tr.contract.multiplier))
            led.apply(tr, c)
        post = led.nlv(quotes, mult)
        c.prove_eq("C07:recorded-post-trade-nlv=ledger", reb.context_post.nlv, post)
        for con in ep.contracts:
            ql = led.q.get(con.symbol, 0.0)
            c.prove_eq("C07:recorded-holdings=ledger", reb.context_post.nr_contracts.get(con, 0.0), ql)
            if ql != 0:
                b_, a_ = quotes[con.symbol]
                w = ql * (b_ if ql > 0 else a_) * mult[con.symbol] / post
                c.prove_eq("C07:recorded-weights=q*liq*m/nlv", reb.context_post.weights.get(con, 0.0), w)
        # ---- reward = stated function of NLV after the step's events and the recorded pre-trade NLV
        after_quotes = _quotes_at(c, ep, upto=ep.T[k])
        nlv_after = led.nlv(after_quotes, mult)
        c.prove_eq("C07:reward=f(nlv-after-events, recorded-pre-nlv)[%s]" % kind, r,
                   _reward_oracle(c, kind, nlv_after, reb.context_pre.nlv, params))
        if kind == "RewardSimpleReturn":
            simple = simple * (1 + r)
        c.record("nlv_post_%d" % k, reb.context_post.nlv)
        seen.append((reb, reb.time, reb.context_pre.nlv, reb.context_post.nlv,
                     dict(reb.context_pre.nr_contracts), dict(reb.context_post.nr_contracts),
                     dict(reb.context_post.weights), [(t.contract.symbol, t.quantity, t.acq_price) for t in reb.trades]))
    c.prove("C07:one-record-per-step-overall", len(env.broker.track_record) == k)
    # ---- the record is an account of the past: later steps must not have changed earlier entries
    for i, (reb, t0, pre0, post0, nr_pre0, nr_post0, w0, tr0) in enumerate(seen):
        c.prove("C07:earlier-record-still-in-place", env.broker.track_record[i] is reb and bool(reb.time == t0))
        c.prove_eq("C07:earlier-record-unchanged:pre-nlv", reb.context_pre.nlv, pre0)
        c.prove_eq("C07:earlier-record-unchanged:post-nlv", reb.context_post.nlv, post0)
        for con in ep.contracts:
            c.prove_eq("C07:earlier-record-unchanged:holdings", reb.context_pre.nr_contracts.get(con, 0.0), nr_pre0.get(con, 0.0))
            c.prove_eq("C07:earlier-record-unchanged:holdings", reb.context_post.nr_contracts.get(con, 0.0), nr_post0.get(con, 0.0))
            c.prove_eq("C07:earlier-record-unchanged:weights", reb.context_post.weights.get(con, 0.0), w0.get(con, 0.0))
        c.prove("C07:earlier-record-unchanged:trades", len(reb.trades) == len(tr0))
    if kind == "RewardSimpleReturn" and cfg.get("latency", "zero") == "zero" and k >= 1:
        final_quotes = _quotes_at(c, ep, upto=ep.T[k])
        c.prove_eq("C07:simple-returns-compound-to-final/initial", simple, led.nlv(final_quotes, mult) / 100.0)
    c.reached("episode")


def configs(tier):
    out = []

    def add(**kw):
        kw["id"] = "C07/" + ",".join("%s=%s" % kv for kv in sorted(kw.items()))
        out.append(kw)

    for rk in ("RewardSimpleReturn", "RewardPnL", "RewardLogReturn", "LogReturn"):
        add(N=3, M=0, sym_prices=True, reward_kind=rk, fees=True)
    add(N=3, M=1, sym_prices=True, reward_kind="RewardSimpleReturn", latency="sym", free_kinds=["quote"])
    add(N=3, M=0, sym_prices=True, reward_kind="RewardSimpleReturn", sells=True, fees=True)
    # a non-zero interest-rate path: recorded interest must be what the account was credited
    add(N=3, M=0, sym_prices=True, reward_kind="RewardPnL", fees=True, concrete_grid=True, rate="sym", markup=0.01)
    if tier == "thorough":
        # measured: grids of 4 and two contracts with symbolic prices cost 10-100x more solver time
        # per path (deeper rational functions) and did not finish in 90 minutes; the thorough tier
        # therefore deepens the timeline (extra quote + latency for every reward class, delay,
        # concrete-price grid of 4) rather than the price algebra
        for rk in ("RewardSimpleReturn", "RewardPnL", "RewardLogReturn"):
            add(N=3, M=1, sym_prices=True, reward_kind=rk, latency="sym", free_kinds=["quote"], fees=True)
        add(N=3, M=0, sym_prices=True, reward_kind="RewardSimpleReturn", delay=1, fees=True)
        add(N=4, M=0, sym_prices=True, reward_kind="RewardSimpleReturn", fees=True)
        add(N=4, M=0, sym_prices=True, reward_kind="RewardPnL", fees=True)
        add(N=4, M=1, sym_prices=False, reward_kind="RewardSimpleReturn", latency="sym", free_kinds=["quote"], fees=True,
            spread=2.0)
        add(N=4, M=0, sym_prices=False, reward_kind="LogReturn", fees=True, spread=2.0, two_contracts=True)
    return out


ANCHORS = ["track_record.py:TrackRecord._checkpoint", "track_record.py:TrackRecord.__getitem__",
           "broker.py:Broker.rebalance", "broker.py:Broker.context", "rewards.py:RewardSimpleReturn.calculate",
           "rewards.py:RewardPnL.calculate", "rewards.py:RewardLogReturn.calculate", "rewards.py:LogReturn.calculate",
           "env.py:TradingEnv.step"]
EXPECT_REACH = ["episode"]
ASSUMPTIONS = _A + ["quote prices symbolic with 0 < bid <= ask in [1e-3, 1e6]; actions concrete long-only weights "
                    "0.1..0.4 (so NLV stays positive: ruin is C09)",
                    "np.log is an uninterpreted function (congruence, sign and monotonicity instantiated); "
                    "LogReturn(scale=0.5, clip=0.25, risk_aversion=0.5)",
                    "interest rate book 0/0 except in the 'rate' configuration (concrete daily grid, symbolic rate in "
                    "[0, 0.2], markup 1%): there the ledger is fed with the *recorded* interest, so a record that "
                    "disagrees with the cash actually credited is caught; the interest formula itself is C06"]
BOUNDS = {"quick": "grid of 3 timesteps (2 executions), one spot contract, fees, 4 reward classes; one config with a "
                   "symbolic latency and an extra quote",
          "thorough": "latency + extra quote for three reward classes, delay 1 (symbolic prices, grid of 3); grid of 4 and "
                      "two contracts with concrete prices"}
OUTSIDE = ["the pandas accessors TrackRecord.net_liquidation_value()/transaction_costs()/weights_*() (float64 frames "
           "cannot carry proxies)", "futures chains in an episode (C11)", "IEEE rounding"]
STUBS = ["builtin float() shadowed in tradingenv.rewards by the identity on proxies",
         "np.log -> Ackermannised uninterpreted function with congruence/sign/monotonicity axioms"]
DEADLINE_S = {"quick": 900, "thorough": 5400}
TASK_S = 8.0
