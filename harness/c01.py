"""C01 — self-financing trading (family L, DESIGN §4 C01)."""
from harness import l_ops
from harness.ledger import ASSUMPTIONS as _A

PROPERTY = "C01"
harness = l_ops.harness


def configs(tier):
    return l_ops.configs_for("C01", tier)


ANCHORS = ["broker.py:Broker.transact", "broker.py:Broker.marking_to_market",
           "broker.py:Broker.holdings_values", "broker.py:Broker.net_liquidation_value",
           "trade.py:Trade.__init__", "fees.py:BrokerFees.commissions",
           "exchange.py:LimitOrderBook.acq_price", "exchange.py:Exchange.process_EventNBBO"]
EXPECT_REACH = ["trade", "quote", "mtm"]
ASSUMPTIONS = _A
BOUNDS = {
    "quick": "one traded contract (user-defined spot-like or margined spec with symbolic multiplier "
             "and margin requirement; built-in ETF/ES/ZN) + cash; one operation (trade of any sign and "
             "size / quote update / mark-to-market + valuation queries) from every INV pre-state shape "
             "(never traded, traded and flat, long, short)",
    "thorough": "as quick plus a bystander contract of either kind in every shape (two non-cash "
                "contracts + cash)",
}
OUTSIDE = ["IEEE rounding", "the 1e-7 snap band", "more than two non-cash contracts (independence by "
           "the per-contract loop structure, not machine-checked)",
           "the induction over the number of operations is an argument on paper; each step is checked"]
STUBS = []
DEADLINE_S = {"quick": 600, "thorough": 3600}
