"""C01 — self-financing trading (family L, DESIGN §4 C01)."""
from harness import l_ops, l_rebalance, l_seq
from harness.ledger import ASSUMPTIONS as _A

PROPERTY = "C01"


def harness(c, cfg):
    if cfg.get("op") == "rebalance":
        return l_rebalance.harness(c, cfg)
    if cfg.get("op") == "seq":
        return l_seq.harness(c, cfg)
    return l_ops.harness(c, cfg)


def configs(tier):
    out = l_ops.configs_for("C01", tier) + l_seq.configs_for("C01", tier)

    def add(**kw):
        kw["prop"] = "C01"
        kw["op"] = "rebalance"
        kw["id"] = "C01/" + ",".join("%s=%s" % (k, v) for k, v in sorted(kw.items()) if k != "prop")
        out.append(kw)

    # the rebalancing path: trades built from the exchange's current quotes
    for kind in ("spot", "margined"):
        for shape in ("fresh", "long", "short"):
            add(kindA=kind, shapeA=shape, measure="weight")
        add(kindA=kind, shapeA="held", roleA="untargeted", measure="weight")
    if tier == "thorough":
        for ka in ("spot", "margined"):
            for kb in ("spot", "margined"):
                add(kindA=ka, shapeA="held", kindB=kb, shapeB="held", measure="weight")
                add(kindA=ka, shapeA="held", kindB=kb, shapeB="held", roleB="untargeted", measure="nr-contracts")
    return out


ANCHORS = ["broker.py:Broker.transact", "broker.py:Broker.marking_to_market",
           "broker.py:Broker.holdings_values", "broker.py:Broker.net_liquidation_value",
           "trade.py:Trade.__init__", "fees.py:BrokerFees.commissions",
           "exchange.py:LimitOrderBook.acq_price", "exchange.py:Exchange.process_EventNBBO",
           "broker.py:Broker.rebalance", "rebalancing.py:Rebalancing.make_trades"]
EXPECT_REACH = ["trade", "quote", "mtm", "rebalance", "sequence"]
ASSUMPTIONS = _A
BOUNDS = {
    "quick": "one traded contract (user-defined spot-like or margined spec with symbolic multiplier "
             "and margin requirement; built-in ETF/ES/ZN) + cash; one operation (trade of any sign and "
             "size / quote update / mark-to-market + valuation queries) from every INV pre-state shape "
             "(never traded, traded and flat, long, short)",
    "thorough": "as quick plus a bystander contract of either kind in every shape (two non-cash "
                "contracts + cash)",
}
OUTSIDE = ["IEEE rounding", "the 1e-7 snap band", "from-reset sequences longer than 3-4 operations (they cross-check the "
           "inductive step and the INV shapes, they are not the induction)", "more than two non-cash contracts (independence by "
           "the per-contract loop structure, not machine-checked)",
           "the induction over the number of operations is an argument on paper; each step is checked"]
STUBS = []
DEADLINE_S = {"quick": 600, "thorough": 3600}
