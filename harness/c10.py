"""C10 — episodes are reproducible and environments are isolated (family E).

Within one path (one symbolic timeline + symbolic prices) the same actions are replayed
after reset, after abandoned / failed episodes, on a freshly built identical environment,
and with a second environment (independent symbolic data) interleaved under each of the
20 schedules of {reset, step, step} x {reset, step, step}; every output must be an equal
term to the solo run's."""
from __future__ import annotations

import itertools

import numpy as np

from symx import core, stubs
from symx.core import SymReal
from harness.episode import Episode, ASSUMPTIONS as _A
from tradingenv import rewards as _rewards_mod
from tradingenv.broker.broker import EndOfEpisodeError
from tradingenv.contracts import AbstractContract

PROPERTY = "C10"


class CountingReward(_rewards_mod.AbstractReward):
    """A user-defined stateful reward: the environment must reset it with every episode."""

    def __init__(self):
        self.n = 0

    def reset(self):
        self.n = 0

    def calculate(self, env):
        self.n += 1
        nlv0 = env.broker.track_record[-1].context_pre.nlv
        return env.broker.net_liquidation_value() / nlv0 - 1 + 0.001 * self.n


def _snap_step(ep, out):
    r, done, info = out
    reb = info.get("_rebalancing")
    rec = None
    if reb is not None:
        rec = {"time": reb.time, "pre": reb.context_pre.nlv, "post": reb.context_post.nlv,
               "interest": reb.profit_on_idle_cash,
               "trades": [[t.contract.symbol, t.quantity, t.acq_price] for t in reb.trades],
               "alloc": sorted([[k.symbol, v] for k, v in reb.allocation.items()], key=lambda x: x[0])}
    return {"reward": r, "done": done, "record": rec}


class Runner:
    """Drives one environment call by call and collects everything it returns / records."""

    def __init__(self, ep):
        self.ep = ep
        self.k = 0
        self.outs = []
        self.mark = len(ep.log)

    def reset(self):
        self.k = 0
        self.outs = []
        self.mark = len(self.ep.log)
        self.ep.env.reset()

    def step(self):
        if self.ep.env._done:
            return
        a = self.ep.action(self.k)
        self.k += 1
        obs, r, done, info = self.ep.env.step(a)
        snap = _snap_step(self.ep, (r, done, info))
        if isinstance(obs, dict):
            snap["observation"] = [obs[k] for k in sorted(obs) if isinstance(obs[k], (int, float, SymReal))]
        self.outs.append(snap)

    def run_all(self, max_steps=None):
        self.reset()
        while not self.ep.env._done and (max_steps is None or self.k < max_steps):
            self.step()

    def result(self):
        env = self.ep.env
        log = [[e["kind"], e["tag"], e["time"], e["nreb"]] for e in self.ep.log[self.mark:]]
        hist = []
        st = env.state
        if getattr(st, "features", None):
            for f in st.features:
                hist.append([[t, v] for t, v in f.history.items()])
        if isinstance(getattr(st, "history", None), dict) and st.history:
            hist.append([[t, v] for t, v in st.history.items()])
        books = []
        for con in self.ep.contracts:
            h = env.exchange[con].history
            books.append([list(h["time"]), list(h["bid_price"]), list(h["ask_price"])])
        tr = env.broker.track_record
        return {"steps": self.outs, "quote_history": books, "log": log, "feature_history": hist, "n_records": len(tr),
                "holdings": sorted([[k.symbol, v] for k, v in env.broker._holdings_quantity.items()],
                                   key=lambda x: x[0])}


def same(c, label, a, b, path=""):
    """Structural equality of two outputs as obligations (numbers: equal terms)."""
    if isinstance(a, dict) and isinstance(b, dict):
        c.prove(label + ":same-structure", sorted(a.keys()) == sorted(b.keys()), info=path)
        for k in a:
            if k in b:
                same(c, label, a[k], b[k], path + "/" + str(k))
        return
    if isinstance(a, (list, tuple)) and isinstance(b, (list, tuple)):
        c.prove(label + ":same-structure", len(a) == len(b), info={"at": path, "len": [len(a), len(b)]})
        for i, (x, y) in enumerate(zip(a, b)):
            same(c, label, x, y, "%s[%d]" % (path, i))
        return
    if isinstance(a, (SymReal, float, int, np.floating, np.integer)) and not isinstance(a, bool) \
            and isinstance(b, (SymReal, float, int, np.floating, np.integer)) and not isinstance(b, bool):
        c.prove_eq(label + ":identical-value", a, b, info=path)
        return
    eq = (a == b)
    c.prove(label + ":identical-value", eq if isinstance(eq, core.SymBool) else bool(eq), info={"at": path})


def harness(c, cfg):
    sym = c.mode == "sym"
    saved = AbstractContract.now
    from datetime import datetime as _dt
    AbstractContract.now = _dt.min           # the value a fresh process starts with
    if sym:
        stubs.install(_rewards_mod, "float", core.sym_float)
    try:
        _harness(c, cfg)
    finally:
        AbstractContract.now = saved
        if sym:
            stubs.uninstall(_rewards_mod, "float")


def _harness(c, cfg):
    scen = cfg["scenario"]
    if cfg.get("stateful_reward"):
        cfg = dict(cfg, reward=CountingReward())
    epA = Episode(c, cfg, prefix="")
    ref = Runner(epA)
    try:
        ref.run_all()
    except EndOfEpisodeError:
        c.out_of_scope("ruin (C09)")
    R = ref.result()
    c.record("ref_rewards", [s["reward"] for s in R["steps"]])
    if scen == "repeat":
        ref.run_all()
        same(c, "C10:same-actions-after-reset", R, ref.result())
        ref.run_all()
        same(c, "C10:same-actions-after-second-reset", R, ref.result())
    elif scen == "abandon":
        for j in range(0, epA.N):
            ref.run_all(max_steps=j)          # abandoned after j steps
            ref.run_all()
            same(c, "C10:same-actions-after-abandoned-episode", R, ref.result())
    elif scen == "error":
        ref.reset()
        ref.step()
        raised = False
        for _ in range(cfg.get("delay", 0) + 1):        # rejected when due (delay steps later)
            try:
                epA.env.step("not an action")
            except (ValueError, TypeError, AttributeError, IndexError):
                raised = True
                break
            except EndOfEpisodeError:
                break
        c.prove("C10:malformed-action-raises-when-due", raised or epA.env._done)
        ref.run_all()
        same(c, "C10:same-actions-after-failed-episode", R, ref.result())
    elif scen == "fresh":
        ep2 = epA.clone()
        r2 = Runner(ep2)
        r2.run_all()
        same(c, "C10:freshly-built-identical-environment", R, r2.result())
    elif scen == "interleave":
        cfgB = dict(cfg, N=cfg.get("NB", cfg.get("N", 3)))
        epB = Episode(c, cfgB, prefix="B_")
        refB = Runner(epB)
        try:
            refB.run_all()
        except EndOfEpisodeError:
            c.out_of_scope("ruin (C09)")
        RB = refB.result()
        a2, b2 = Runner(epA.clone()), Runner(epB.clone())
        sched = cfg["schedule"]
        progA = ["reset"] + ["step"] * (epA.N - 1)
        progB = ["reset"] + ["step"] * (epB.N - 1)
        ia = ib = 0
        for who in sched:
            if who == "A":
                getattr(a2, progA[ia])()
                ia += 1
            else:
                getattr(b2, progB[ib])()
                ib += 1
        same(c, "C10:interleaved-environment-A=solo", R, a2.result())
        same(c, "C10:interleaved-environment-B=solo", RB, b2.result())
    elif scen == "stale-clock":
        # another (spot) environment runs an episode later than the chain's span, then an
        # identical chain environment is built and run: must equal the reference
        late = Episode(c, dict(N=2, M=0, t_lo=(2031, 1, 1), t_hi=(2031, 2, 1)), prefix="late_")
        Runner(late).run_all()
        try:
            ep2 = epA.clone()
            r2 = Runner(ep2)
            r2.run_all()
            built = None
        except (IndexError, KeyError, ValueError) as ex:
            import traceback
            built = "%s | %s" % (type(ex).__name__, traceback.format_exc(limit=-3)[-500:])
        c.prove("C10:environment-built-after-unrelated-episode-works", built is None,
                info={"sig": (built or "none").split(" |")[0], "exception": built})
        if built is None:
            same(c, "C10:freshly-built-identical-environment", R, r2.result())
    else:
        raise ValueError(scen)
    c.reached(scen)


def _schedules(na, nb):
    out = set()
    for p in itertools.permutations("A" * na + "B" * nb):
        out.add("".join(p))
    return sorted(out)


VARIANTS = {
    "spot": dict(sym_prices=True),
    "spot-fees-latency": dict(sym_prices=True, fees=True, latency="sym", M=1, free_kinds=["quote"]),
    "spot-delay": dict(sym_prices=True, delay=1),
    "stateful-reward": dict(sym_prices=True, stateful_reward=True),
    "feature": dict(sym_prices=True, feature=True),
    "state-history": dict(sym_prices=True, state_history=True),
    "passive-feature": dict(sym_prices=True, passive_feature=True),
    "future": dict(sym_prices=True, contract="future", t_lo=(2030, 1, 1), t_hi=(2030, 5, 1)),
    "chain": dict(sym_prices=True, contract="chain", t_lo=(2030, 2, 20), t_hi=(2030, 3, 14)),
}


def configs(tier):
    out = []

    def add(variant, **kw):
        cfg = dict(N=3, M=0)
        cfg.update(VARIANTS[variant])
        cfg.update(kw)
        cfg["variant"] = variant
        cfg["id"] = "C10/" + variant + "," + ",".join("%s=%s" % kv for kv in sorted(kw.items()))
        out.append(cfg)

    quick_variants = ["spot", "spot-fees-latency", "spot-delay", "feature", "state-history", "passive-feature", "future",
                      "stateful-reward"]
    for v in quick_variants:
        for scen in ("repeat", "abandon", "error", "fresh"):
            add(v, scenario=scen)
    # two environments: A = reset + 2 steps, B = reset + 1 step -> 10 schedules (quick);
    # concrete, pairwise distinct prices (a leak between the environments shows up as a
    # different concrete value) with symbolic timelines
    inter = dict(sym_prices=False, NB=2)
    scheds = _schedules(3, 2)
    for s in scheds:
        add("spot", scenario="interleave", schedule=s, **inter)
    for s in scheds:
        add("future", scenario="interleave", schedule=s, **inter)     # margined: per-broker marking state
    for s in scheds[::3]:
        add("chain", scenario="interleave", schedule=s, **inter)
        add("feature", scenario="interleave", schedule=s, **inter)
    for scen in ("repeat", "abandon", "fresh", "stale-clock"):
        add("chain", scenario=scen, sym_prices=False)
    add("spot", scenario="stale-clock", sym_prices=False)
    if tier == "thorough":
        full = _schedules(3, 3)
        for s in full:                                   # both environments reset + 2 steps: all 20
            add("spot", scenario="interleave", schedule=s, sym_prices=False, NB=3)
        for v in ("spot-fees-latency", "feature", "future", "chain"):
            for s in full[::4]:
                add(v, scenario="interleave", schedule=s, sym_prices=False, NB=3)
            for s in scheds:
                add(v, scenario="interleave", schedule=s, **inter)
        for s in scheds[::2]:
            add("spot", scenario="interleave", schedule=s, NB=2)          # symbolic prices
        for scen in ("repeat", "fresh"):
            add("spot", scenario=scen, N=4)
    # de-duplicate ids
    seen, uniq = set(), []
    for cfg in out:
        if cfg["id"] not in seen:
            seen.add(cfg["id"])
            uniq.append(cfg)
    return uniq


ANCHORS = ["env.py:TradingEnv.reset", "env.py:TradingEnv.step", "events.py:Observer.reset", "state.py:IState.reset",
           "transmitter.py:Transmitter._reset", "transmitter.py:Transmitter._next", "features.py:Feature.reset"]
EXPECT_REACH = ["repeat", "abandon", "error", "fresh", "interleave", "stale-clock"]
ASSUMPTIONS = _A + ["quote prices symbolic; actions concrete; 'bit-identical' is checked as 'equal terms' over the "
                    "reals (float summation-order effects in the last bits are rounding, outside the claim)",
                    "two environments: independent symbolic timelines and prices (prefix B_)"]
BOUNDS = {"quick": "grids of 3 timesteps; repeat / abandon after j steps / failed step / fresh clone for spot, fees+latency, "
                   "delay, feature-with-history and single-future configurations (symbolic prices); two environments "
                   "(A: reset+2 steps, B: reset+1 step, concrete distinct prices, symbolic independent timelines): all "
                   "10 interleavings for spot, 4 for future / chain / feature configurations",
          "thorough": "A and B both reset+2 steps: all 20 interleavings for spot, 5 for the other configurations; all 10 "
                      "(reset+2) x (reset+1) interleavings for every configuration incl. chains; symbolic prices for 5 "
                      "spot interleavings; grid of 4 for repeat/fresh (the full 20 x 5 matrix with chains did not finish "
                      "in 45 minutes)"}
OUTSIDE = ["more than two environments", "threads (the API is synchronous)"]
STUBS = ["builtin float() shadowed in tradingenv.rewards"]
DEADLINE_S = {"quick": 900, "thorough": 5400}
TASK_S = 8.0
