"""Family L: one Broker.rebalance from an arbitrary INV account.  Shared by
C03 (target reached), C12 (trade filtering), C13 (missing prices, all-or-nothing) and
the rebalancing-path clause of C01.  cfg['prop'] selects the obligations."""
from __future__ import annotations

import math
from datetime import datetime, timedelta

from symx import core, stubs
from symx.core import SymReal, s_and, s_or, s_not, s_implies, s_iff
from harness.ledger import Leg, build_account, oracle_nlv, quote, EPS, Q_HI, P_LO, P_HI
from tradingenv.broker.rebalancing import Rebalancing
from tradingenv.broker.broker import EndOfEpisodeError
from tradingenv.events import EventContractDiscontinued
import tradingenv.broker.rebalancing as _reb_mod

T0 = datetime(2020, 1, 6, 12, 0, 0)
NAN = float("nan")


def _set_quote(c, ex, leg, pattern):
    """Install the quote pattern of a leg on the real exchange."""
    if pattern == "ok":
        return
    k = leg.contract
    if pattern == "never":
        leg.bid = leg.ask = NAN
        return
    b = c.real("bid_" + leg.tag, P_LO, P_HI)
    a = c.real("ask_" + leg.tag, P_LO, P_HI)
    c.assume(b <= a)
    if pattern == "bidnan":
        leg.bid, leg.ask = NAN, a
        quote(ex, k, NAN, a)
    elif pattern == "asknan":
        leg.bid, leg.ask = b, NAN
        quote(ex, k, b, NAN)
    elif pattern == "both":
        leg.bid = leg.ask = NAN
        quote(ex, k, NAN, NAN)
    elif pattern == "dead":
        quote(ex, k, b, a)
        ex.process_EventContractDiscontinued(EventContractDiscontinued(T0 - timedelta(days=1), k))
        leg.bid = leg.ask = NAN
    elif pattern == "dead-then-quoted":
        ex.process_EventContractDiscontinued(EventContractDiscontinued(T0 - timedelta(days=1), k))
        quote(ex, k, b, a)          # must be ignored by the dead book
        leg.bid = leg.ask = NAN
    else:
        raise ValueError(pattern)


def _px(leg, sign_of):
    """Execution-side quote for a quantity/weight of the given sign: ask to buy, bid to sell."""
    if sign_of > 0:
        return leg.ask
    if sign_of < 0:
        return leg.bid
    return (leg.bid + leg.ask) / 2


def _isnan(x):
    return isinstance(x, float) and math.isnan(x)


def _state(br, legs):
    return {leg.tag: (br._holdings_quantity.get(leg.contract, 0.0), br._holdings_margins.get(leg.contract, 0.0))
            for leg in legs}


def harness(c, cfg):
    prop = cfg["prop"]
    stub_int = not cfg.get("fractional", True) and c.mode == "sym"
    if stub_int:
        stubs.install(_reb_mod, "int", core.sym_int)
    try:
        _harness(c, cfg, prop)
    finally:
        if stub_int:
            stubs.uninstall(_reb_mod, "int")


def _harness(c, cfg, prop):
    pat = cfg.get("quotes", {})
    legs = []
    for tag in ("A", "B", "C"):
        kind = cfg.get("kind" + tag)
        if not kind:
            continue
        legs.append(Leg(c, tag, kind, cfg.get("shape" + tag, "held"), spec=cfg.get("spec" + tag, "user"),
                        quotes=(pat.get(tag, "ok") == "ok")))
    frictionless = cfg.get("frictionless", False)
    if frictionless:
        for leg in legs:
            c.assume(leg.bid == leg.ask)
    ex, br, fee, cash0 = build_account(c, legs, fees=not frictionless)
    for leg in legs:
        _set_quote(c, ex, leg, pat.get(leg.tag, "ok"))
    br._last_accrual = T0 - timedelta(hours=1)          # rate book is 0/0: no interest

    measure = cfg.get("measure", "weight")
    fractional = cfg.get("fractional", True)
    roles = {leg.tag: cfg.get("role" + leg.tag, "target") for leg in legs}
    # ---- targets
    targets = {}
    contracts, allocation = [], []
    for leg in legs:
        role = roles[leg.tag]
        if role == "untargeted":
            continue
        if role == "zero":
            t = 0.0
        elif measure == "weight":
            t = c.real("w_" + leg.tag, -10, 10)
            c.assume(t != 0)
        else:
            t = c.real("n_" + leg.tag, -Q_HI, Q_HI)
            c.assume(s_or(t >= EPS, t <= -EPS))
        targets[leg.tag] = t
        contracts.append(leg.contract)
        allocation.append(t)
    if cfg.get("threshold") == "sym":
        tau = c.real("tau", 0, 10)
    else:
        tau = float(cfg.get("threshold", 0.0))

    # ---- C13: valuation with missing quotes
    missing_liq = []            # legs whose liquidation side is missing (decided per path)
    for leg in legs:
        if leg.shape == "fresh":
            continue
        q = leg.q
        if q != 0:
            side = leg.bid if q > 0 else leg.ask
            if _isnan(side):
                missing_liq.append(leg.tag)
    if prop == "C13":
        for fn, label in ((lambda: br.net_liquidation_value(False), "net_liquidation_value"),
                          (lambda: br.holdings_values(), "holdings_values"),
                          (lambda: br.holdings_weights(), "holdings_weights")):
            before = _state(br, legs)
            try:
                val = fn()
                raised = None
            except EndOfEpisodeError:
                continue
            except ValueError as ex_:
                raised = ex_
            c.prove("C13:%s-raises-iff-held-position-lacks-liquidation-quote" % label,
                    (raised is not None) == bool(missing_liq), info={"missing": missing_liq, "raised": repr(raised)})
            if raised is None:
                vals = val.values() if isinstance(val, dict) else [val]
                c.prove("C13:%s-never-nan" % label, not any(_isnan(v) for v in vals))
        c.reached("valuation")

    # ---- pre-trade NLV (only defined when every held leg can be valued)
    nlv_pre = None
    if not missing_liq:
        nlv_pre = br.net_liquidation_value(False)
        c.assume(nlv_pre > 0)          # ruin is C09
        if c.mode == "conc":
            gross = max([abs(float(x)) for x in c.scale] + [1e-300])
            if float(nlv_pre) < 1e-6 * gross:
                # NLV is a 1e-6 fraction of the gross exposure: weights (= value / NLV) amplify
                # float rounding by 1e6+; the concrete comparison is numerically void
                raise core.FloatTie("ill-conditioned account: NLV << gross exposure")
        c.record("nlv_pre", nlv_pre)
    q_before = {leg.tag: (br._holdings_quantity.get(leg.contract, 0.0)) for leg in legs}
    m_before = {leg.tag: (br._holdings_margins.get(leg.contract, 0.0)) for leg in legs}
    cash_before = br._holdings_quantity[br.base_currency]
    n_records = len(br.track_record)

    # snap band: every post-trade position is 0 or >= 1e-7 in absolute value
    expect_nr = {}
    if nlv_pre is not None:
        for leg in legs:
            role = roles[leg.tag]
            if role in ("untargeted", "zero"):
                expect_nr[leg.tag] = 0.0
            elif measure == "weight":
                px = _px(leg, targets[leg.tag])
                if _isnan(px):
                    expect_nr[leg.tag] = NAN
                else:
                    expect_nr[leg.tag] = targets[leg.tag] * nlv_pre / px / leg.m
            else:
                expect_nr[leg.tag] = targets[leg.tag]
        if fractional:
            for leg in legs:
                e = expect_nr[leg.tag]
                if isinstance(e, SymReal):
                    c.assume(s_or(e == 0, e >= EPS, e <= -EPS))

    if cfg.get("via_space"):
        # the request is built by the action space, as TradingEnv.step does
        import numpy as np
        from tradingenv.spaces import BoxPortfolio
        space = BoxPortfolio(contracts, low=-2e6, high=2e6, as_weights=(measure == "weight"), fractional=fractional,
                             margin=tau)
        if c.mode == "sym":
            action = np.empty(len(allocation), dtype=object)
            for i, a in enumerate(allocation):
                action[i] = a
        else:
            action = np.array([float(a) for a in allocation], dtype=float)
        reb = space.make_rebalancing_request(action, T0, br)
    else:
        reb = Rebalancing(contracts=contracts, allocation=allocation, measure=measure,
                          fractional=fractional, margin=tau, time=T0)
    raised = None
    try:
        br.rebalance(reb)
    except EndOfEpisodeError as ex_:
        raised = ex_
    except (ValueError, KeyError, ZeroDivisionError) as ex_:
        raised = ex_

    if prop == "C13":
        _c13(c, cfg, br, legs, reb, raised, q_before, m_before, cash_before, n_records, missing_liq,
             roles, targets, measure, nlv_pre)
        return
    if isinstance(raised, EndOfEpisodeError):
        c.out_of_scope("account ruined by this rebalance (C09)")
    if raised is not None:
        raise raised        # C03 / C12 / C01: quotes are all present, nothing may raise
    trades = {t.contract.symbol: t for t in reb.trades}
    c.prove("no-duplicate-trades", len(trades) == len(reb.trades))
    nlv_post = br.net_liquidation_value(False)
    c.record("nlv_post", nlv_post)
    c.record("trades", [[t.contract.symbol, t.quantity] for t in reb.trades])

    if prop == "C03":
        c.prove_eq("C03:recorded-pre-nlv=nlv-before-trading", reb.context_pre.nlv, nlv_pre)
        for leg in legs:
            q1 = br._holdings_quantity.get(leg.contract, 0.0)
            role = roles[leg.tag]
            if role in ("untargeted", "zero"):
                c.prove_eq("C03:held-but-untargeted-is-closed", q1, 0.0)
            elif measure == "weight":
                w = targets[leg.tag]
                px = _px(leg, w)
                c.prove_eq("C03:position*multiplier*execution-quote=w*NLV_pre", q1 * leg.m * px, w * nlv_pre,
                           scale=(nlv_pre,), info={"w": w, "q1": q1, "nlv_pre": nlv_pre})
            else:
                c.prove_eq("C03:contract-target-reached-exactly", q1, targets[leg.tag])
        if cfg.get("frictionless"):
            c.prove_eq("C03:frictionless:nlv-unchanged", nlv_post, nlv_pre)
            wpost = reb.context_post.weights
            for leg in legs:
                t = targets.get(leg.tag, 0.0)
                if measure == "weight":
                    got = wpost.get(leg.contract, 0.0)
                    c.prove_eq("C03:frictionless:post-weights=target", got, t)
            reb2 = Rebalancing(contracts=contracts, allocation=allocation, measure=measure,
                               fractional=fractional, margin=tau, time=T0 + timedelta(seconds=1))
            br.rebalance(reb2)
            if c.mode == "conc":     # floats: "nothing of economic size"
                nothing = all(abs(t.notional) <= 1e-9 * max(abs(float(x)) for x in c.scale + [1.0])
                              for t in reb2.trades)
            else:
                nothing = len(reb2.trades) == 0
            c.prove("C03:frictionless:second-rebalance-trades-nothing", nothing,
                    info=[[t.contract.symbol, t.quantity] for t in reb2.trades])
        c.reached("rebalance")

    elif prop == "C12":
        in_alloc = {leg.tag: (roles[leg.tag] == "target") for leg in legs}
        for leg in legs:
            imb = expect_nr[leg.tag] - q_before[leg.tag]
            if c.mode == "conc" and not fractional and abs(imb - round(imb)) < 1e-6:
                raise core.FloatTie("imbalance within rounding distance of a whole lot")
            tr = trades.get(leg.contract.symbol)
            if imb != 0:
                wimb = leg.m * imb * _px(leg, imb) / nlv_pre
                big = (wimb >= tau) if wimb >= 0 else (-wimb >= tau)
            else:
                big = False
            nonzero = (imb != 0)
            expected = s_and(nonzero, s_or(big, not in_alloc[leg.tag]))
            if not fractional:
                # whole lots: an imbalance below one lot is skipped
                lots_nonzero = s_or(imb >= 1, imb <= -1) if isinstance(imb, SymReal) else (abs(imb) >= 1)
                expected = s_and(expected, lots_nonzero)
            if tr is not None:
                c.prove("C12:trade-emitted-only-if-due[%s]" % roles[leg.tag], expected,
                        info={"imbalance": imb, "tau": tau})
                if fractional:
                    c.prove_eq("C12:traded-quantity=imbalance", tr.quantity, imb)
                else:
                    q = tr.quantity
                    c.prove("C12:whole-lot-quantity-is-nonzero", q != 0)
                    c.prove("C12:whole-lot-quantity=imbalance-truncated-toward-zero",
                            s_and(s_implies(imb >= 0, s_and(q <= imb, imb < q + 1)),
                                  s_implies(imb < 0, s_and(q >= imb, imb > q - 1))),
                            info={"imbalance": imb, "quantity": q})
                c.prove("C12:no-zero-sized-trade", tr.quantity != 0)
            else:
                c.prove("C12:trade-skipped-only-if-not-due[%s]" % roles[leg.tag], s_not(expected),
                        info={"imbalance": imb, "tau": tau})
        c.prove("C12:cash-never-traded", all(t.contract.symbol != br.base_currency.symbol for t in reb.trades))
        c.reached("rebalance")

    elif prop == "C01":
        # rebalancing path: NLV moves by the sum of its trades' deltas (no interest here)
        expected = 0.0
        for leg in legs:
            tr = trades.get(leg.contract.symbol)
            if tr is None:
                continue
            dq = tr.quantity
            q0 = q_before[leg.tag]
            q1 = q0 + dq
            acq = leg.ask if dq > 0 else leg.bid
            commission = fee.fixed + fee.proportional * abs(acq * dq * leg.m)
            v1 = q1 * leg.liq(q1) if q1 != 0 else 0.0
            v0 = q0 * leg.liq(q0) if q0 != 0 else 0.0
            expected = expected - commission + leg.m * (v1 - v0 - dq * acq)
        c.prove_eq("C01:rebalance-delta=sum-of-trade-deltas", nlv_post - nlv_pre, expected,
                   scale=(nlv_pre, nlv_post))
        c.prove_eq("C01:recorded-post-nlv", reb.context_post.nlv, nlv_post)
        c.reached("rebalance")


def _c13(c, cfg, br, legs, reb, raised, q_before, m_before, cash_before, n_records, missing_liq,
         roles, targets, measure, nlv_pre):
    if isinstance(raised, EndOfEpisodeError):
        return
    if missing_liq:
        c.prove("C13:rebalance-raises-when-held-position-lacks-liquidation-quote", raised is not None)
    # every trade this rebalance has to make needs its execution-side quote (ask to buy, bid to
    # sell); if that quote is missing the rebalance must fail instead of silently dropping it
    needs = []
    imbalance = {}
    if not missing_liq:
        nlv = None
        for leg in legs:
            role = roles[leg.tag]
            q0 = q_before[leg.tag]
            if role in ("untargeted", "zero"):
                tgt = 0.0
            elif measure == "weight":
                px = _px(leg, targets[leg.tag])
                if _isnan(px):
                    needs.append(leg.tag)
                    continue
                tgt = targets[leg.tag] * nlv_pre / px / leg.m
            else:
                tgt = targets[leg.tag]
            imb = tgt - q0
            imbalance[leg.tag] = imb
            if imb != 0:
                side = leg.ask if imb > 0 else leg.bid
                if _isnan(side):
                    needs.append(leg.tag)
    if needs:
        c.prove("C13:rebalance-raises-when-a-due-trade-lacks-its-execution-quote", raised is not None,
                info={"needs": needs, "measure": measure})
    if raised is not None:
        for leg in legs:
            c.prove_eq("C13:failed-rebalance-leaves-position-unchanged",
                       br._holdings_quantity.get(leg.contract, 0.0), q_before[leg.tag])
            c.prove_eq("C13:failed-rebalance-leaves-margin-unchanged",
                       br._holdings_margins.get(leg.contract, 0.0), m_before[leg.tag])
        c.prove("C13:failed-rebalance-adds-no-record", len(br.track_record) == n_records)
        c.prove_eq("C13:failed-rebalance-cash-changes-by-interest-only",
                   br._holdings_quantity[br.base_currency], cash_before)
        c.reached("failed-rebalance")
    else:
        bad = []
        for leg in legs:
            q = br._holdings_quantity.get(leg.contract, 0.0)
            if _isnan(q):
                bad.append(leg.tag)
        for t in reb.trades:
            if _isnan(t.quantity) or _isnan(t.acq_price):
                bad.append("trade")
        c.prove("C13:successful-rebalance-never-trades-or-holds-nan", not bad, info=bad)
        # ... and has really made every due trade (nothing silently dropped): threshold is 0
        for leg in legs:
            if leg.tag in imbalance and not _isnan(imbalance[leg.tag]):
                c.prove_eq("C13:successful-rebalance-reaches-every-target",
                           br._holdings_quantity.get(leg.contract, 0.0), q_before[leg.tag] + imbalance[leg.tag])
        c.prove("C13:successful-rebalance-adds-one-record", len(br.track_record) == n_records + 1)
        nl = reb.context_post.nlv
        c.prove("C13:post-nlv-is-a-number", not _isnan(nl))
        c.reached("successful-rebalance")
