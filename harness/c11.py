"""C11 — futures chains trade the live lead contract and roll before expiry."""
from __future__ import annotations

from datetime import datetime, timedelta

import numpy as np

from symx import core, stubs
from symx.core import SymReal, s_and, s_or, s_implies
from symx.timeproxy import sym_time, SymTime
from harness.ledger import Leg, build_account, quote, EPS, P_LO, P_HI, Q_HI
from harness.episode import Episode
from tradingenv import rewards as _rewards_mod
from tradingenv.broker.broker import EndOfEpisodeError
from tradingenv.broker.rebalancing import Rebalancing
from tradingenv.contracts import ES, NK, VX, ZN, ZB, FutureChain, AbstractContract
from tradingenv.exchange import Exchange

PROPERTY = "C11"
CLASSES = {"ES": ES, "NK": NK, "VX": VX, "ZN": ZN, "ZB": ZB}
SPANS = {"ES": ("2029-06", "2030-12"), "NK": ("2029-06", "2030-12"), "VX": ("2030-01", "2030-08"),
         "ZN": ("2029-06", "2030-12"), "ZB": ("2029-09", "2030-06")}


def _resolve(c, cfg):
    cls = CLASSES[cfg["cls"]]
    off = cfg.get("month", 0)
    if cfg.get("listed"):
        # the chain is given as an explicit list of contracts, in a permuted order
        base = FutureChain(cls, *SPANS[cfg["cls"]]).contracts
        perm = cfg["listed"]
        ch = FutureChain(contracts=[base[i % len(base)] for i in perm], month=off)
        c.prove("C11:explicitly-listed-contracts-are-sorted-by-last-trading-date",
                all(a.last_trading_date < b.last_trading_date for a, b in zip(ch.contracts, ch.contracts[1:])))
    else:
        ch = FutureChain(cls, *SPANS[cfg["cls"]], month=off)
    cons = ch.contracts
    ltd = [x.last_trading_date for x in cons]
    lo = ltd[0] - timedelta(days=40)
    hi = ltd[-1 - off]                      # inside the span: a lead (with offset) exists
    now = sym_time(c, "now", lo=lo, hi=hi)
    saved = AbstractContract.now
    try:
        AbstractContract.now = now
        lead = ch.lead_contract()
        idx = ch._lead_contract_idx()
        # oracle: first listed contract whose last trading date is strictly later than now
        first = None
        for i, d in enumerate(ltd):
            if bool(now < d):
                first = i
                break
        c.prove("C11:lead=earliest-last-trading-date-strictly-after-now(+offset)",
                first is not None and lead is cons[first + off] and idx == first + off,
                info={"now": now, "idx": idx, "expected": first})
        c.prove("C11:lead-not-past-its-last-trading-date", now < lead.last_trading_date)
        c.prove("C11:static-hashing-and-symbol-follow-the-lead", ch.static_hashing() is lead and
                ch.symbol == lead.symbol and hash(ch) == hash(lead) and ch == lead)
        ex = Exchange()
        c.prove("C11:exchange-key-addresses-the-lead-book", ex[ch] is ex[lead])
        explicit = ch.lead_contract(now)
        c.prove("C11:explicit-time-agrees", explicit is lead)
        # monotone: a later clock never resolves to an earlier contract
        later = sym_time(c, "later", lo=lo, hi=hi)
        c.assume(now <= later)
        AbstractContract.now = later
        idx2 = ch._lead_contract_idx()
        c.prove("C11:lead-only-moves-forward", idx2 >= idx, info={"idx": idx, "idx2": idx2})
        c.record("idx", [idx, idx2])
        c.reached("resolve")
    finally:
        AbstractContract.now = saved


def _roll(c, cfg):
    """The account holds the old lead; the clock is at/after its last trading date; a
    rebalance that targets the chain closes it and re-establishes the target in the new lead."""
    cls = CLASSES[cfg["cls"]]
    ch = FutureChain(cls, *SPANS[cfg["cls"]])
    old, new = ch.contracts[0], ch.contracts[1]
    now = sym_time(c, "now", lo=old.last_trading_date, hi=min(old.expiry, new.last_trading_date))
    saved = AbstractContract.now
    try:
        AbstractContract.now = now
        legs = [Leg(c, "O", "margined", cfg.get("shape", "held"), spec="user"),
                Leg(c, "N", "margined", "fresh", spec="user")]
        # use the real built-in contracts (concrete multiplier / margin requirement)
        for leg, con in zip(legs, (old, new)):
            leg.contract, leg.m, leg.r = con, con.multiplier, con.margin_requirement
        ex, br, fee, cash = build_account(c, legs)
        nlv_pre = br.net_liquidation_value(False)
        c.assume(nlv_pre > 0)
        w = c.real("w", -5, 5)
        c.assume(w != 0)
        tau = c.real("tau", 0, 1) if cfg.get("threshold") == "sym" else 0.0
        px = legs[1].ask if w > 0 else legs[1].bid
        target = w * nlv_pre / px / new.multiplier
        c.assume(s_or(target >= EPS, target <= -EPS))
        reb = Rebalancing(contracts=[ch], allocation=[w], margin=tau, time=now)
        try:
            br.rebalance(reb)
        except EndOfEpisodeError:
            c.out_of_scope("ruin")
        keys = list(reb.allocation.keys())
        c.prove("C11:allocation-keyed-by-the-lead", len(keys) == 1 and keys[0] is new,
                info=[type(k).__name__ + ":" + k.symbol for k in keys])
        c.prove("C11:positions-are-booked-on-listed-contracts-not-on-the-chain",
                all(k is old or k is new or not isinstance(k, FutureChain) for k in br._holdings_quantity))
        c.prove_eq("C11:old-lead-closed-whatever-the-threshold", br._holdings_quantity.get(old, 0.0), 0.0)
        c.prove_eq("C11:old-lead-margin-released", br._holdings_margins.get(old, 0.0), 0.0)
        if not cfg.get("threshold"):
            q = br._holdings_quantity.get(new, 0.0)
            c.prove_eq("C11:target-re-established-in-the-new-lead", q * new.multiplier * px, w * nlv_pre,
                       scale=(nlv_pre,))
        c.prove("C11:no-trade-in-any-other-listed-contract",
                all(t.contract is old or t.contract is new for t in reb.trades),
                info=[type(t.contract).__name__ + ":" + t.contract.symbol for t in reb.trades])
        c.record("trades", [[t.contract.symbol, t.quantity] for t in reb.trades])
        c.reached("roll")
    finally:
        AbstractContract.now = saved


def _episode(c, cfg):
    """Episode over the roll window: with a step between last trading date and expiry, the
    old lead is flat when its discontinuation event arrives."""
    cfg = dict(cfg, contract="chain", sym_prices=False)
    sym = c.mode == "sym"
    if sym:
        stubs.install(_rewards_mod, "float", core.sym_float)
    saved = AbstractContract.now
    AbstractContract.now = datetime.min
    try:
        ep = Episode(c, cfg)
        F1 = ep.F1
        ltd, exp = F1.last_trading_date, F1.expiry
        # some decision is taken at/after the last trading date and *executed* (decision time +
        # latency) before the expiry
        if isinstance(ep.L, (int, float)) and ep.L == 0:
            c.assume(s_or(*[s_and(t >= ltd, t < exp) for t in ep.T[:-1]]))
        else:
            c.assume(s_or(*[s_and(t >= ltd, t < exp, (exp - t).total_seconds() > ep.L) for t in ep.T[:-1]]))
        env = ep.env
        env.reset()
        k = 0
        held_at_disc = None
        while not env._done and k < ep.N + 1:
            before = len(ep.log)
            try:
                env.step(ep.action(k))
            except EndOfEpisodeError:
                c.out_of_scope("ruin")
            k += 1
            lead_now = ep.chain.lead_contract(ep.T[k])
            for e in ep.log[before:]:
                if e["kind"] == "Disc" and e["event"].contract is F1:
                    held_at_disc = env.broker._holdings_quantity.get(F1, 0.0)
            # after each step every listed contract other than the lead at decision time is flat
            dec_lead = ep.chain.lead_contract(ep.T[k - 1])
            for con in ep.contracts:
                if con is not dec_lead:
                    c.prove_eq("C11:episode:only-the-lead-is-held-after-a-rebalance",
                               env.broker._holdings_quantity.get(con, 0.0), 0.0, info={"step": k, "contract": con.symbol})
        # position in F1 when (and if) its discontinuation was delivered
        discs = [e for e in ep.log if e["kind"] == "Disc" and e["event"].contract is F1]
        if discs:
            c.reached("discontinued-in-episode")
        c.prove("C11:episode:no-position-in-a-contract-at-its-discontinuation",
                held_at_disc is None or bool(held_at_disc == 0), info={"held": held_at_disc})
        c.record("k", k)
        c.reached("episode")
    finally:
        AbstractContract.now = saved
        if sym:
            stubs.uninstall(_rewards_mod, "float")


def harness(c, cfg):
    {"resolve": _resolve, "roll": _roll, "episode": _episode}[cfg["part"]](c, cfg)


def configs(tier):
    out = []

    def add(**kw):
        kw["id"] = "C11/" + ",".join("%s=%s" % kv for kv in sorted(kw.items()))
        out.append(kw)

    for name in CLASSES:
        for off in (0, 1):
            add(part="resolve", cls=name, month=off)
    for name, perm in (("ES", [2, 0, 1]), ("ES", [1, 2, 0, 3]), ("ZN", [3, 1, 0, 2]), ("VX", [4, 0, 3, 1, 2])):
        add(part="resolve", cls=name, month=0, listed=perm)
    add(part="resolve", cls="ES", month=1, listed=[2, 3, 0, 1])
    for name in ("ES", "ZN", "VX"):
        for shape in ("long", "short"):
            add(part="roll", cls=name, shape=shape)
        add(part="roll", cls=name, shape="held", threshold="sym")
    add(part="episode", N=3, M=0, t_lo=(2030, 2, 25), t_hi=(2030, 3, 25))
    if tier == "thorough":
        for name in ("NK", "ZB"):
            for shape in ("long", "short", "flat"):
                add(part="roll", cls=name, shape=shape)
            add(part="roll", cls=name, shape="held", threshold="sym")
        add(part="episode", N=4, M=0, t_lo=(2030, 2, 25), t_hi=(2030, 3, 25))
        add(part="episode", N=3, M=0, t_lo=(2030, 2, 25), t_hi=(2030, 3, 25), latency="sym")
        add(part="episode", N=3, M=0, t_lo=(2030, 2, 25), t_hi=(2030, 3, 25), delay=1)
    return out


ANCHORS = ["contracts.py:FutureChain._lead_contract_idx", "contracts.py:FutureChain.lead_contract",
           "contracts.py:FutureChain.static_hashing", "exchange.py:Exchange.__getitem__",
           "allocation.py:_Allocation.__init__", "rebalancing.py:Rebalancing.make_trades", "broker.py:Broker.rebalance",
           "contracts.py:Future.make_events", "exchange.py:LimitOrderBook.terminate"]
EXPECT_REACH = ["resolve", "roll", "episode", "discontinued-in-episode"]
ASSUMPTIONS = ["chains of the built-in classes over concrete 1-2 year spans (real datetimes); the clock is a symbolic "
               "microsecond timestamp anywhere from 40 days before the first last-trading date to the last listed one "
               "(the solver picks the exact last-trading instants)",
               "roll: the old lead is held with a symbolic position of either sign, symbolic quotes with spread for old and "
               "new lead, symbolic target weight (non-zero) and threshold; NLV > 0; snap band excluded",
               "episode: some decision is taken in [last trading date, expiry) and executed (decision time + latency) "
               "before the expiry; every step targets the chain with a non-zero weight; concrete prices"]
BOUNDS = {"quick": "resolution for 5 classes x month offset 0/1; roll for ES/ZN/VX; one episode over the March 2030 ES roll "
                   "with 3 grid points",
          "thorough": "roll for NK/ZB too; episodes with 4 grid points, symbolic latency, delay 1"}
OUTSIDE = ["chains longer than the spans used", "exchange holidays"]
STUBS = ["builtin float() shadowed in tradingenv.rewards (episode part)"]
DEADLINE_S = {"quick": 900, "thorough": 3600}
